"""Shared helpers for the LDPC / session streams: running harness/drv_dec.c, parsing its answers,
independent oracles (peeling closure, GF(2) rank)."""
import os
import vlib

WRAP = ["-Wl,--wrap=malloc,--wrap=calloc,--wrap=realloc,--wrap=free"]


def dec_driver(snap):
    return vlib.build_c(snap, "drv_dec", "drv_dec.c", flags=vlib.SAN + WRAP)


def run_dec(snap, reqs, timeout=1800):
    exe = dec_driver(snap)
    env = dict(os.environ, ASAN_OPTIONS="detect_leaks=0")   # leaks are counted by the driver itself (LK token)
    return vlib.run_driver(exe, reqs, prefix="R ", env=env, timeout=timeout)


class Ans:
    """Parsed answer line of drv_dec.c"""

    def __init__(self, line):
        self.raw = line
        self.crash = line.startswith(("CRASH", "SKIPPED"))
        self.P = self.Q = None
        self.H = None; self.r = self.n = None
        self.LN = None; self.Y = None; self.B = ""
        self.steps = []      # (status, complete, srcmask, repmask)
        self.Fdig = None
        self.dig = []        # digest of the decoder's internal state after each submission call (LDPC / 2D)
        self.F = None
        self.ED = None
        self.E = None; self.CB = []; self.RO = None; self.LK = None; self.PM = None
        self.PS = None       # 0: a source-table entry changed its pointer between two fetches
        self.GI = None       # 1: the source table was empty before any submission
        self.HL = None       # library-owned heap blocks of the decoder session: (setup, [after each submission call], after finish or None, after release)
        if self.crash:
            return
        for tok in line.split()[1:]:
            if tok.startswith("PM"):
                self.PM = tok[2:]
            elif tok.startswith("PS"):
                self.PS = int(tok[2:])
            elif tok.startswith("P"):
                self.P = int(tok[1:])
            elif tok.startswith("GI"):
                self.GI = int(tok[2:])
            elif tok.startswith("HL"):
                a, b, f, d = tok[2:].split(";")
                self.HL = (int(a), [int(x) for x in b.split(",") if x], None if f == "-" else int(f), int(d))
            elif tok.startswith("H"):
                dims, rows = tok[1:].split(":", 1)
                self.r, self.n = [int(x) for x in dims.split(",")]
                self.Hs = rows
                self.H = [[int(c) for c in row.split(",")] if row else [] for row in rows.split("/")]
            elif tok.startswith("LN"):
                self.LN = tok[2:]
            elif tok.startswith("Y"):
                self.Ys = tok[1:]
                self.Y = tok[1:].split(".")
            elif tok.startswith("B"):
                self.B = tok[1:]
            elif tok.startswith("Q"):
                self.Q = int(tok[1:])
            elif tok.startswith("S") or tok.startswith("F"):
                parts = tok.split(":")
                head, sm, rm = parts[0], parts[1], parts[2]
                rec = (int(head[1]), int(head[2]), sm, rm)
                if tok[0] == "S":
                    self.steps.append(rec)
                    self.dig.append(parts[3] if len(parts) > 3 else None)
                else:
                    self.F = rec
                    if len(parts) > 3:
                        self.Fdig = parts[3]
            elif tok.startswith("ED"):
                self.ED = int(tok[2:])
            elif tok.startswith("E"):
                self.E = tok[1:]
            elif tok.startswith("CB"):
                self.CB = [x for x in tok[2:].split(",") if x]
            elif tok.startswith("RO"):
                self.RO = int(tok[2:])
            elif tok.startswith("LK"):
                self.LK = int(tok[2:])


def peel_closure(H, known):
    """Peeling closure of a set of matrix columns (iterative erasure decoding), independent of the model."""
    known = set(known)
    changed = True
    while changed:
        changed = False
        for row in H:
            unk = [c for c in row if c not in known]
            if len(unk) == 1:
                known.add(unk[0]); changed = True
    return known


def col_of(k, r, esi):
    return esi + r if esi < k else esi - k


def gf2_determined(H, ncols, known, targets):
    """Which target columns are uniquely determined by the parity equations given the known columns:
    Gaussian elimination over GF(2) on the unknown columns (bitmask rows)."""
    unk = [c for c in range(ncols) if c not in known]
    idx = {c: i for i, c in enumerate(unk)}
    rows = []
    for row in H:
        m = 0
        for c in row:
            if c in idx:
                m ^= 1 << idx[c]
        if m:
            rows.append(m)
    # reduced row echelon form
    piv = {}
    for m in rows:
        for b, pr in piv.items():
            if m >> b & 1:
                m ^= pr
        if m:
            b = m.bit_length() - 1
            for b2 in list(piv):
                if piv[b2] >> b & 1:
                    piv[b2] ^= m
            piv[b] = m
    det = set(known)
    for b, pr in piv.items():
        if pr == 1 << b:        # pivot row with a single unknown: that unknown is determined
            det.add(unk[b])
    return {t for t in targets if t in det}


def matrix_premises(H, r, n):
    """Hypotheses of the IT/ML theorems about a parity-check matrix (rows as lists of columns): returns the first one that fails, or None.
    H0_len, H0_nodup, H0_range, H0_deg, R_le_N, H0_cols (every column occurs), stair (row c holds column c; its other entries are sources or earlier repairs)."""
    if len(H) != r:
        return "number of rows %d != r=%d" % (len(H), r)
    if r > n:
        return "more rows than columns"
    seen = set()
    for i, row in enumerate(H):
        if len(set(row)) != len(row):
            return "row %d has a duplicate entry" % i
        if any(c < 0 or c >= n for c in row):
            return "row %d has an entry out of range" % i
        if len(row) < 2:
            return "row %d has fewer than two entries" % i
        if i not in row:
            return "row %d does not contain its own repair column" % i
        if any(c != i and c < r and c > i for c in row):
            return "row %d contains a later repair column" % i
        seen.update(row)
    if len(seen) != n:
        return "column %d occurs in no equation" % min(set(range(n)) - seen)
    return None
