#!/usr/bin/env python3
"""A small C -> Gallina translator for straight-line C functions (assignments, if/else, return;
integer and double arithmetic; reads/writes of globals and of fields of a struct pointer parameter).

clang is the parser (`-Xclang -ast-dump=json`).  The generated definition lives in the option
monad of coq/CSem.v: `None` = the C function would have undefined behaviour at that point
(out-of-range double->integer conversion, signed overflow).  Integer types keep their C
semantics: unsigned arithmetic wraps modulo 2^N, integral conversions are explicit.

Unsupported constructs (loops, pointers other than `p->field`, arrays, calls other than the
whitelisted libm functions) raise Unsupported: the caller reports that the translator no longer
applies, which is a broken tie, not silently ignored."""
import json, os, re, subprocess, sys


class Unsupported(Exception):
    pass


INT_TYPES = {
    "unsigned long long": ("u", 64), "unsigned long": ("u", 64), "unsigned int": ("u", 32),
    "unsigned short": ("u", 16), "unsigned char": ("u", 8),
    "long long": ("i", 64), "long": ("i", 64), "int": ("i", 32), "short": ("i", 16),
    "signed char": ("i", 8), "char": ("i", 8), "_Bool": ("u", 1), "bool": ("u", 1),
}
IGNORED_CALLS = {"printf", "fprintf", "fflush"}
LIBM = {"ceil": "d_ceil", "floor": "d_floor", "fabs": "d_fabs"}


def ast_of(path, fn, incdirs, defines=()):
    cmd = ["clang", "-fsyntax-only", "-w"] + ["-I" + d for d in incdirs] + ["-D" + d for d in defines] + \
          ["-Xclang", "-ast-dump=json", "-Xclang", "-ast-dump-filter=" + fn, path]
    p = subprocess.run(cmd, stdout=subprocess.PIPE, stderr=subprocess.PIPE, universal_newlines=True)
    txt = p.stdout
    dec = json.JSONDecoder()
    i, docs = 0, []
    while i < len(txt):
        while i < len(txt) and txt[i] in " \n\r\t":
            i += 1
        if i >= len(txt):
            break
        if txt[i] != "{":
            j = txt.find("\n", i)
            if j < 0:
                break
            i = j
            continue
        d, i = dec.raw_decode(txt, i)
        docs.append(d)
    for d in docs:
        if d.get("kind") == "FunctionDecl" and d.get("name") == fn and any(c.get("kind") == "CompoundStmt" for c in d.get("inner", [])):
            return d
    raise Unsupported("function %s with a body not found in %s (clang rc=%d: %s)" % (fn, path, p.returncode, p.stderr[-500:]))


def ctype(node):
    t = node.get("type", {})
    q = t.get("desugaredQualType", t.get("qualType", ""))
    q = q.replace("const ", "").replace("volatile ", "").strip()
    return q


def tyclass(q):
    if q in INT_TYPES:
        return INT_TYPES[q]
    if q in ("double",):
        return ("f", 64)
    raise Unsupported("type " + q)


def conv_int(term, ty):
    k, n = ty
    return "(%s%d %s)" % ("wrapu" if k == "u" else "wraps", n, term)


class Tr:
    def __init__(self, fn_ast, globals_rw=()):
        self.f = fn_ast
        self.tmp = 0
        self.params = []
        self.globals_read = []
        self.globals_written = []
        self.outs = []          # struct-pointer fields written, in order
        self.ptr_params = set()
        self.locals = set()
        self.skipped = []

    def fresh(self):
        self.tmp += 1
        return "tmp%d_" % self.tmp

    # ---------------------------------------------------------------- expressions
    def var_of(self, n):
        """lvalue node -> variable name"""
        k = n["kind"]
        if k == "ParenExpr":
            return self.var_of(n["inner"][0])
        if k == "DeclRefExpr":
            name = n["referencedDecl"]["name"]
            dk = n["referencedDecl"]["kind"]
            if dk == "ParmVarDecl" or name in self.locals:
                return name
            if dk == "VarDecl":
                if name not in self.globals_read:
                    self.globals_read.append(name)
                return name
            raise Unsupported("reference to " + dk)
        if k == "MemberExpr" and n.get("isArrow"):
            base = n["inner"][0]
            while base["kind"] in ("ImplicitCastExpr", "ParenExpr"):
                base = base["inner"][0]
            if base["kind"] == "DeclRefExpr" and base["referencedDecl"]["kind"] == "ParmVarDecl":
                self.ptr_params.add(base["referencedDecl"]["name"])
                return "%s_%s" % (base["referencedDecl"]["name"], n["name"])
        raise Unsupported("lvalue " + k)

    def expr(self, n):
        """-> (prelude [(name, partial term)], total term)"""
        k = n["kind"]
        if k in ("ParenExpr", "ConstantExpr"):
            return self.expr(n["inner"][0])
        if k == "IntegerLiteral":
            return [], "(%s)" % n["value"]
        if k == "FloatingLiteral":
            v = n["value"]
            f = float(v)
            if f != int(f):
                raise Unsupported("non-integral floating literal " + v)
            return [], "(d_of_Z (%d))" % int(f)
        if k in ("DeclRefExpr", "MemberExpr"):
            return [], self.var_of(n)
        if k in ("ImplicitCastExpr", "CStyleCastExpr"):
            ck = n.get("castKind")
            pre, t = self.expr(n["inner"][0])
            if ck in ("LValueToRValue", "NoOp", "FunctionToPointerDecay"):
                return pre, t
            if ck == "IntegralCast":
                return pre, conv_int(t, tyclass(ctype(n)))
            if ck == "IntegralToFloating":
                return pre, "(d_of_Z %s)" % t
            if ck == "FloatingToIntegral":
                kk, nn = tyclass(ctype(n))
                v = self.fresh()
                return pre + [(v, "(d_to_%s%d %s)" % (kk, nn, t))], v
            if ck == "FloatingCast":
                if tyclass(ctype(n)) == ("f", 64) and tyclass(ctype(n["inner"][0])) == ("f", 64):
                    return pre, t
            raise Unsupported("cast " + str(ck))
        if k == "UnaryOperator":
            op = n["opcode"]
            pre, t = self.expr(n["inner"][0])
            ty = tyclass(ctype(n))
            if op == "-" and ty[0] == "f":
                return pre, "(d_neg %s)" % t
            if op == "-" and ty[0] == "u":
                return pre, conv_int("(- %s)" % t, ty)
            if op == "~" and ty[0] == "u":
                return pre, "(Z.lxor %s (2^%d - 1))" % (t, ty[1])
            if op == "~" and ty[0] == "i":
                return pre, "(- %s - 1)" % t          # two's complement (what gcc and clang implement)
            if op == "+":
                return pre, t
            if op == "!":
                return pre, "(b2z (negb (z2b %s)))" % t
            raise Unsupported("unary " + op)
        if k == "BinaryOperator":
            op = n["opcode"]
            a, b = n["inner"]
            pa, ta = self.expr(a)
            pb, tb = self.expr(b)
            pre = pa + pb
            aty = tyclass(ctype(a))
            if op in ("<", ">", "<=", ">=", "==", "!="):
                return pre, "(b2z %s)" % self.cmp(op, ta, tb, aty)
            if op in ("&&", "||"):
                if pb:
                    raise Unsupported("partial operation on the right of " + op)
                return pre, "(b2z (%s (z2b %s) (z2b %s)))" % ("andb" if op == "&&" else "orb", ta, tb)
            ty = tyclass(ctype(n))
            return self.arith(op, ta, tb, ty, pre, tyclass(ctype(b)))
        if k == "ConditionalOperator":
            cpre, c = self.cond(n["inner"][0])
            pa, ta = self.expr(n["inner"][1])
            pb, tb = self.expr(n["inner"][2])
            if pa or pb:
                raise Unsupported("partial operation inside a conditional expression")
            return cpre, "(if %s then %s else %s)" % (c, ta, tb)
        if k == "CXXBoolLiteralExpr":
            return [], "(%d)" % (1 if n.get("value") else 0)
        if k == "CallExpr":
            callee = n["inner"][0]
            while callee["kind"] in ("ImplicitCastExpr", "ParenExpr"):
                callee = callee["inner"][0]
            name = callee.get("referencedDecl", {}).get("name")
            args = [self.expr(x) for x in n["inner"][1:]]
            pre = sum((p for p, _ in args), [])
            if name in LIBM:
                return pre, "(%s %s)" % (LIBM[name], " ".join(t for _, t in args))
            if name in self.known_fns:
                v = self.fresh()
                return pre + [(v, "(%s %s)" % (self.known_fns[name], " ".join(t for _, t in args)))], v
            raise Unsupported("call to " + str(name))
        raise Unsupported("expression kind " + k)

    known_fns = {}

    def cmp(self, op, ta, tb, aty):
        if aty[0] == "f":
            m = {"<": "d_lt", ">": "d_gt", "<=": "d_le", ">=": "d_ge", "==": "d_eq", "!=": "d_ne"}[op]
            return "(%s %s %s)" % (m, ta, tb)
        m = {"<": "<?", ">": ">?", "<=": "<=?", ">=": ">=?", "==": "=?"}
        if op == "!=":
            return "(negb (%s =? %s))" % (ta, tb)
        return "(%s %s %s)" % (ta, m[op], tb)

    def arith(self, op, ta, tb, ty, pre, bty=None):
        k, nbits = ty
        if k == "f":
            m = {"+": "d_add", "-": "d_sub", "*": "d_mul", "/": "d_div"}.get(op)
            if not m:
                raise Unsupported("double op " + op)
            return pre, "(%s %s %s)" % (m, ta, tb)
        zop = {"+": "%s + %s", "-": "%s - %s", "*": "%s * %s", "&": "Z.land %s %s", "|": "Z.lor %s %s",
               "^": "Z.lxor %s %s", ">>": "Z.shiftr %s %s", "<<": "Z.shiftl %s %s",
               "/": "Z.quot %s %s", "%%": "Z.rem %s %s", "%": "Z.rem %s %s"}.get(op)
        if not zop:
            raise Unsupported("integer op " + op)
        raw = "(" + zop % (ta, tb) + ")"
        if op in ("/", "%"):
            v = self.fresh()
            return pre + [(v, "(chk_div %s %s)" % (tb, raw))], v
        if op in ("<<", ">>"):
            v = self.fresh()
            if k == "u":
                return pre + [(v, "(chk_shift %d %s %s)" % (nbits, tb, conv_int(raw, ty)))], v
            v0 = self.fresh()      # signed: the shifted value must be representable, the amount in range
            return pre + [(v0, "(chk_s%d %s)" % (nbits, raw)), (v, "(chk_shift %d %s %s)" % (nbits, tb, v0))], v
        if k == "u":
            if op in ("&", "|", "^"):
                return pre, raw
            return pre, conv_int(raw, ty)
        # signed: overflow is undefined behaviour
        if op in ("&", "|", "^"):
            return pre, raw
        v = self.fresh()
        return pre + [(v, "(chk_s%d %s)" % (nbits, raw))], v

    def cond(self, n):
        """condition -> (prelude, bool term)"""
        k = n["kind"]
        if k == "ParenExpr":
            return self.cond(n["inner"][0])
        if k == "BinaryOperator" and n["opcode"] in ("<", ">", "<=", ">=", "==", "!="):
            a, b = n["inner"]
            pa, ta = self.expr(a)
            pb, tb = self.expr(b)
            return pa + pb, self.cmp(n["opcode"], ta, tb, tyclass(ctype(a)))
        if k == "BinaryOperator" and n["opcode"] in ("&&", "||"):
            pa, ta = self.cond(n["inner"][0])
            pb, tb = self.cond(n["inner"][1])
            if pb:
                raise Unsupported("partial operation on the right of " + n["opcode"])
            return pa, "(%s %s %s)" % ("andb" if n["opcode"] == "&&" else "orb", ta, tb)
        if k == "UnaryOperator" and n["opcode"] == "!":
            p, t = self.cond(n["inner"][0])
            return p, "(negb %s)" % t
        p, t = self.expr(n)
        if tyclass(ctype(n))[0] == "f":
            raise Unsupported("double used as condition")
        return p, "(z2b %s)" % t

    # ---------------------------------------------------------------- statements
    def wrap(self, pre, body):
        for v, t in reversed(pre):
            body = "bind %s (fun %s =>\n%s)" % (t, v, body)
        return body

    def assign(self, lhs, pre, term, rest):
        name = self.var_of(lhs)
        dk = None
        if lhs["kind"] == "DeclRefExpr":
            dk = lhs["referencedDecl"]["kind"]
            if dk == "VarDecl" and name not in self.locals and name not in self.globals_written:
                self.globals_written.append(name)
        elif name not in self.outs:
            self.outs.append(name)
        return self.wrap(pre, "let %s := %s in\n%s" % (name, term, self.stmts(rest)))

    def finish_term(self, ret):
        parts = []
        if ret is not None:
            parts.append(ret)
        parts += self.final_globals + self.final_outs
        if not parts:
            return "Some tt"
        return "Some (%s)" % ", ".join(parts)

    def stmts(self, l):
        if not l:
            return self.finish_term(None) if self.is_void else "None (* fell off a non-void function *)"
        s, rest = l[0], l[1:]
        k = s["kind"]
        if k == "CompoundStmt":
            return self.stmts(list(s.get("inner", [])) + rest)
        if k == "NullStmt":
            return self.stmts(rest)
        if k == "DeclStmt":
            body_rest = rest
            decls = s.get("inner", [])
            out_pre, lets = [], []
            for d in decls:
                if d["kind"] != "VarDecl":
                    raise Unsupported("declaration " + d["kind"])
                tyclass(ctype(d))
                self.locals.add(d["name"])
                if d.get("inner"):
                    init = [x for x in d["inner"] if x["kind"] not in ("FullComment",)]
                    if init:
                        p, t = self.expr(init[0])
                        lets.append((p, d["name"], t))
            body = self.stmts(body_rest)
            for p, name, t in reversed(lets):
                body = self.wrap(p, "let %s := %s in\n%s" % (name, t, body))
            return body
        if k == "BinaryOperator" and s["opcode"] == "=":
            pre, t = self.expr(s["inner"][1])
            return self.assign(s["inner"][0], pre, t, rest)
        if k == "CompoundAssignOperator":
            op = s["opcode"][:-1]
            lhs, rhs = s["inner"]
            lty = tyclass(ctype(lhs))
            cty = s.get("computeResultType", {})
            cq = cty.get("desugaredQualType", cty.get("qualType", ctype(lhs))).replace("const ", "")
            cty = tyclass(cq)
            pl, tl = [], self.var_of(lhs)
            if cty != lty:
                if cty[0] == "f" and lty[0] != "f":
                    tl = "(d_of_Z %s)" % tl
                elif cty[0] != "f" and lty[0] != "f":
                    tl = conv_int(tl, cty)
                else:
                    raise Unsupported("compound assignment mixing double lhs")
            pr, tr_ = self.expr(rhs)
            pre, t = self.arith(op, tl, tr_, cty, pl + pr, tyclass(ctype(rhs)))
            if cty != lty:
                if cty[0] == "f":
                    v = self.fresh()
                    pre, t = pre + [(v, "(d_to_%s%d %s)" % (lty[0], lty[1], t))], v
                else:
                    t = conv_int(t, lty)
            return self.assign(lhs, pre, t, rest)
        if k == "IfStmt":
            inner = s["inner"]
            cpre, c = self.cond(inner[0])
            th = inner[1]
            el = inner[2] if len(inner) > 2 else None
            # the continuation is duplicated into both branches (functions are small); an early
            # `return` inside a branch then needs no special treatment
            save = (set(self.locals),)
            a = self.stmts([th] + rest)
            b = self.stmts(([el] if el else []) + rest)
            return self.wrap(cpre, "if %s then (\n%s)\nelse (\n%s)" % (c, a, b))
        if k == "ReturnStmt":
            if s.get("inner"):
                pre, t = self.expr(s["inner"][0])
                return self.wrap(pre, self.finish_term(t))
            return self.finish_term(None)
        if k == "CallExpr":
            callee = s["inner"][0]
            while callee["kind"] in ("ImplicitCastExpr", "ParenExpr"):
                callee = callee["inner"][0]
            name = callee.get("referencedDecl", {}).get("name")
            if name in IGNORED_CALLS:
                self.skipped.append("call to %s (I/O only)" % name)
                return self.stmts(rest)
            raise Unsupported("call statement to " + str(name))
        if k in ("DoStmt", "WhileStmt", "ForStmt"):
            raise Unsupported("loop (%s)" % k)
        raise Unsupported("statement kind " + k)

    def translate(self, name=None, skip_stmt=lambda s: False):
        f = self.f
        name = name or f["name"]
        self.is_void = f["type"]["qualType"].split("(")[0].strip() == "void"
        params = [c for c in f["inner"] if c["kind"] == "ParmVarDecl"]
        body = [c for c in f["inner"] if c["kind"] == "CompoundStmt"][0]
        stmts = [s for s in body.get("inner", []) if not skip_stmt(s)]
        # first pass discovers globals/outs (final tuple needs them); run twice
        self.final_globals, self.final_outs = [], []
        self.stmts(list(stmts))
        self.final_globals = list(self.globals_written)
        self.final_outs = list(self.outs)
        self.tmp = 0
        self.locals = set()
        text = self.stmts(list(stmts))
        args = []
        for g in self.globals_read:
            args.append("(%s : Z)" % g)
        for g in self.globals_written:
            if g not in self.globals_read:
                args.append("(%s : Z)" % g)
        for p in params:
            q = ctype(p)
            if p["name"] in self.ptr_params:
                continue
            k = tyclass(q)
            args.append("(%s : %s)" % (p["name"], "binary64" if k[0] == "f" else "Z"))
        # out-fields read before written would need an input: not supported (checked syntactically)
        sig = "Definition %s %s :=\n%s." % (name, " ".join(args), text)
        doc = "(* returns Some (%s) *)" % ", ".join((["<return value>"] if not self.is_void else []) + self.final_globals + self.final_outs)
        return doc + "\n" + sig


def translate_function(path, fn, incdirs, defines=(), coq_name=None, known=None, skip_stmt=lambda s: False):
    t = Tr(ast_of(path, fn, incdirs, defines))
    if known:
        t.known_fns = dict(known)
    text = t.translate(coq_name, skip_stmt)
    return text, t


if __name__ == "__main__":
    text, t = translate_function(sys.argv[1], sys.argv[2], sys.argv[3:])
    print(text)
    print("(* skipped:", t.skipped, "*)")
