#!/usr/bin/env python3-vt
import json, jsonschema, glob, sys
ok = True
jsonschema.validate(json.load(open('/verif/MANIFEST.json')), json.load(open('/root/.vp/MANIFEST.schema.json')))
es = json.load(open('/root/.vp/EVIDENCE.schema.json'))
for f in sorted(glob.glob('/verif/evidence/*.json')):
    try:
        jsonschema.validate(json.load(open(f)), es)
    except Exception as e:
        ok = False; print(f, 'INVALID', str(e)[:300])
print('valid' if ok else 'INVALID')
sys.exit(0 if ok else 1)
