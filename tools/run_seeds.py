#!/usr/bin/env python3
"""Applies every seeded change of /verif/seeded/<id>/patch.diff to /repo in turn, runs the given checks
(default: the check of the same property) and prints which ones fire.  /repo is restored after each."""
import json, os, subprocess, sys
V = os.path.dirname(os.path.dirname(os.path.abspath(__file__)))
REPO = os.environ.get("SEEDS_REPO", "/repo")      # a scratch worktree of /repo may be given: /repo itself then stays untouched
ENV = dict(os.environ, VERIF_REPO=REPO)
seeds = sorted(os.listdir(os.path.join(V, "seeded")))
only = sys.argv[1:]
res = {}
for s in seeds:
    if only and s not in only:
        continue
    patch = os.path.join(V, "seeded", s, "patch.diff")
    if subprocess.call(["git", "-C", REPO, "apply", patch]) != 0:
        print(s, "patch does not apply"); continue
    try:
        pid = s[:3]
        p = subprocess.run([os.path.join(V, "check"), pid, "--tier", "quick"], cwd=V, env=ENV, stdout=subprocess.PIPE, stderr=subprocess.STDOUT, universal_newlines=True, timeout=3000)
        fired = "VIOLATION" in p.stdout
        first = [l for l in p.stdout.splitlines() if "violation:" in l or "broken:" in l][:1]
        res[s] = fired
        print("%s: check %s -> %s  %s" % (s, pid, "CAUGHT" if fired else "MISSED", (first[0][:220] if first else "")))
    finally:
        subprocess.call(["git", "-C", REPO, "checkout", "--", "."])
        # evidence/<id>.json must describe the unchanged tree: re-run the check there
        subprocess.run([os.path.join(V, "check"), s[:3], "--tier", "quick"], cwd=V, stdout=subprocess.DEVNULL, stderr=subprocess.DEVNULL)
subprocess.call([sys.executable, os.path.join(V, "tools", "gen_all.py")], stdout=subprocess.DEVNULL)   # regenerate coq/gen from the restored tree
print(json.dumps(res))
