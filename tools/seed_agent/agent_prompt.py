import json,sys
wt, ids = sys.argv[1], sys.argv[2:]
props={}
for l in open('/verif/properties.jsonl'):
    p=json.loads(l); props[p['id']]=p
tmpl=open('/tmp/agent_tmpl.txt').read()
body=""
for i in ids:
    p=props[i]
    body+="Property %s: %s\n%s\n(Quantified over: %s)\n\n"%(i,p['title'],p['statement'],p['quantifier']['text'])
print(tmpl.replace('@WT@',wt).replace('@PROPS@',body).replace('@N@',str(len(ids))))
