import json,sys
wt, ids = sys.argv[2], sys.argv[3:]
props={}
for l in open('/verif/properties.jsonl'):
    p=json.loads(l); props[p['id']]=p
tmpl=open(sys.argv[1]).read()
body=""
for i in ids:
    p=props[i]
    body+="Property %s: %s\n%s\n(Quantified over: %s)\n\n"%(i,p['title'],p['statement'],p['quantifier']['text'])
print(tmpl.replace('@WT@',wt).replace('@PROPS@',body).replace('@N@',str(len(ids))))
