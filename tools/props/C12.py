"""C12: sessions are independent.  Proof: Interleave.v (generic interleaving theorem) + IndepLdpc.v
(LDPC configuration, the only step reading shared state, is local); correspondence: the same session
requests run (a) interleaved with 1-3 other sessions of mixed codecs in one process, (b) alone in a
fresh process each; every observable token must coincide."""
import os
import vlib, ldpc, sessions


def normalise(q):
    """drv_multi implements the two plain submission APIs and roles 2-4 only: histories of the newer kinds (cumulative tables, a table
    followed by single submissions, encode after decode) are brought back to those - both drivers then run the very same calls"""
    if q.api not in (0, 1):
        q.api = 1
        q.esis = sorted(set(q.esis))
    if q.role == 5:
        q.role = 3
    return q


def strip(ans):
    """tokens comparable between drv_dec (solo) and drv_multi: drop H (matrix, HL ledger), Y, LK, PM and the tokens only drv_dec prints
    (GI: table fetched before any submission; PS: pointer stability across fetches)"""
    toks = [t for t in ans.split()[1:] if not (t.startswith("H") or t.startswith("Y") or t.startswith("LK") or t.startswith("PM")
                                                or t.startswith("GI") or t.startswith("PS"))]
    return " ".join(":".join(t.split(":")[:3]) if t[0] in "SF" and ":" in t else t for t in toks)     # drv_dec adds a state digest to S tokens


# Every writable object with static storage duration in the library, as the C12 argument accounts for it (header of
# Properties_C12.v): anything else is shared state the locality argument knows nothing about.
GLOBALS = {
    "of_seed": "PRNG state: overwritten by every accepted configuration before its first read (ldpc_configuration_is_independent)",
    "of_verbosity": "trace level, printing only",
    "of_rs_initialized": "codec 1 tables built once, idempotently; content proved canonical (C14)",
    "of_gf_mul_table": "codec 1 table (C14)", "of_rs_gf_exp": "codec 1 table (C14)", "of_rs_gf_log": "codec 1 table (C14)",
    "of_rs_inverse": "codec 1 table (C14)",
    "of_hw8table": "popcount byte table, never written (content: C18)",
    "of_copyrights_string": "string constant", "of_version_string": "string constant",
}


def global_inventory(snap):
    """names of the writable static-storage objects (nm classes b/B/d/D/C/s/S/g/G) of the library compiled from the snapshot"""
    import re, shutil, tempfile
    d = tempfile.mkdtemp(prefix="ofv-nm-", dir=os.path.dirname(snap.dir))
    try:
        cmd = ["gcc", "-c", "-O1", "-w", "-DOPENFEC_LITTLE_ENDIAN"]
        for root, dirs, files in os.walk(snap.src):
            cmd.append("-I" + root)
        rc, so, se = vlib.sh(cmd + snap.sources(), cwd=d, timeout=600)
        if rc != 0:
            raise vlib.BuildError("library does not compile: " + se[-2000:])
        rc, so, se = vlib.sh("nm -A *.o", cwd=d)
        out = {}
        for l in so.splitlines():
            m = re.match(r"(\S+?):\S*\s+([bBdDCsSgG])\s+(\S+)$", l)
            if m:
                out[re.sub(r"\.\d+$", "", m.group(3))] = m.group(1)
        return out
    finally:
        shutil.rmtree(d, ignore_errors=True)


def run(c):
    c.prove(["Properties_C12.v"])
    inv = global_inventory(c.snap)
    extra = sorted(set(inv) - set(GLOBALS))
    c.obligations.append(("global-state inventory (nm over the compiled library) = the objects the locality argument accounts for", not extra))
    c.cov["global_state"] = {g: GLOBALS.get(g, "UNACCOUNTED") for g in sorted(inv)}
    if extra:
        c.proof_failed.append({"correspondence": "shared-state inventory", "unaccounted_writable_globals": {g: inv[g] for g in extra},
                               "note": "the library now has static-storage objects that the independence argument (Properties_C12.v header) does not cover; "
                                       "any session can reach them, so a session's behaviour may depend on other sessions"})
    rng = c.rng
    groups = []
    if extra:
        # directed search: sessions of the codec(s) whose object files hold the new objects, two or three at a time, each with callbacks and with
        # source symbols missing, the others driven to their end from inside the first decoded-symbol callback and, separately, call by call
        objs = " ".join(inv[g] for g in extra)
        cods = [cd for cd, pat in ((1, "solomon_gf_2_8"), (2, "gf_2_m"), (2, "galois"), (2, "algebra"), (5, "2d_parity")) if pat in objs] or [1, 2, 3, 5]
        if any(x in objs for x in ("ldpc", "it_decoding", "ml_", "matrix", "symbol", "linear_binary")):
            cods = sorted(set(cods + [3, 5]))
        for _ in range(150):
            ns = rng.rng(2, 3)
            reqs = []
            for _s in range(ns):
                q = normalise(sessions.gen_requests(rng, 1, codecs=[rng.choice(cods)])[0])
                if q.k + q.r > 60:
                    q.k, q.r = rng.rng(2, 8), rng.rng(3, 8)
                    if q.codec == 3:
                        q.p1 = 3
                n = q.k + q.r
                lost = rng.sample(range(q.k), min(q.k, rng.rng(1, min(q.k, q.r))))
                q.esis = [e for e in range(n) if e not in lost]; rng.shuffle(q.esis)
                if q.api == 1:
                    q.esis = sorted(q.esis)
                q.cb = rng.rng(1, 3); q.finish = 1
                reqs.append(q)
            total = sum(4 + q.r + len(q.esis) + 3 for q in reqs)
            groups.append((reqs, [rng.below(ns) for _ in range(total)], "M" if rng.chance(2, 3) else ""))
    for _ in range(60 if c.tier == "quick" else 600):
        ns = rng.rng(2, 4)
        reqs = [normalise(q) for q in sessions.gen_requests(rng, 1, codecs=[rng.choice([1, 2, 3, 3, 5]) for _ in range(ns)])[:ns]]
        for q in reqs:
            if q.k + q.r > 200:
                q.k, q.r = 10, 6
        total = sum(4 + q.r + len(q.esis) + 3 for q in reqs)
        sched = [rng.below(ns) for _ in range(total * 2)]
        kind = rng.below(4)
        if kind == 0:                                   # strictly alternating
            sched = [i % ns for i in range(total * 2)]
        elif kind == 1:                                 # one session runs to the middle, then the others start
            sched = [0] * (total // 3) + sched
        nest = rng.chance(1, 3)          # a third of the groups also run the other sessions' calls from inside decoded-symbol callbacks
        if nest:
            for q in reqs:
                if q.cb == 0:
                    q.cb = rng.rng(1, 3)
        groups.append((reqs, sched, "N" if nest else ""))
    mexe = vlib.build_c(c.snap, "drv_multi", "drv_multi.c")
    env = dict(os.environ, ASAN_OPTIONS="detect_leaks=0")
    # (a) interleaved: one driver process per group would hide cross-group state; run all groups in ONE process
    blob = ""
    for reqs, sched, nest in groups:
        blob += "X %d %s%s\n" % (len(reqs), nest, ",".join(map(str, sched))) + "".join(q.line() + "\n" for q in reqs)
    rc, so, se = vlib.sh([mexe], input=blob, env=env, timeout=1800)
    inter = [l for l in so.splitlines() if l.startswith("R")]
    nexp = sum(len(g[0]) for g in groups)
    if rc != 0 or len(inter) != nexp:
        c.violation("interleaved run crashed (rc=%d, %d of %d answers): %s" % (rc, len(inter), nexp, se[-400:]), "multi-crash", {"stderr": se[-3000:]})
        inter += ["R ?"] * (nexp - len(inter))
    # (b) solo: each session alone in a FRESH process
    dexe = ldpc.dec_driver(c.snap)
    flat = [q for g in groups for q in g[0]]
    n_ok = 0
    for i, q in enumerate(flat):
        rc, so, se = vlib.sh([dexe], input=q.line() + "\n", env=env, timeout=300)
        solo = [l for l in so.splitlines() if l.startswith("R")]
        if rc != 0 or not solo:
            continue
        a, b = strip(solo[0]), strip(inter[i])
        c.dist("codec%d" % q.codec)
        if a != b:
            c.violation("session behaves differently when interleaved with other sessions [%s]: alone %s / interleaved %s" % (q.desc(), a[:300], b[:300]),
                        "not-independent", {"stream": "multi", "request": q.line(), "alone": a[:1500], "interleaved": b[:1500]})
        else:
            n_ok += 1
    c.cov["evaluations"] = len(flat)
    c.cov["distinct_nontrivial"] = len({q.line() for q in flat})
    c.cov["traces_validated_against_impl"] = n_ok
    c.cov["rule"] = ("groups of 2-4 sessions of mixed codecs (RS 2^8, RS 2^m, LDPC twice as likely, 2D parity), each a full life cycle cut into single API calls, interleaved by "
                     "a random / alternating / delayed-start schedule (a third of the groups also nested: other sessions' calls run from inside decoded-symbol callbacks), all groups in one process; each session is re-run alone in a fresh process and all observable tokens compared")
    c.cov["samples"] = [flat[0].line()[:200], flat[-1].line()[:200]]
    c.trusted = vlib.BASE_TRUST + ["the locality hypothesis of the generic theorem is proved for LDPC configuration only; for the other API steps it rests on the C-vs-C comparison"]
