"""C08: a released session leaves nothing behind (ownership-ledger theorems + per-call live-block correspondence + allocation accounting)."""
import vlib, session_check, sessions

LEVEL = "proof"


def run(c):
    c.prove(["Properties_C08.v"])      # the model-level part of the contract (see the file header); the run-time part follows
    q = c.tier == "quick"
    session_check.run_sessions(c, (sessions.RS28, sessions.RS2M, sessions.LDPC), {"C08"}, 500 if q else 6000, 700 if q else 10000, big=not q)
    # sessions released before they did anything: created only, configured (also with refused parameters), configured and queried
    import ldpc
    ureqs = []
    for codec, good, bad in ((1, (5, 3, 8, 0, 0), (0, 3, 8, 0, 0)), (2, (5, 3, 8, 4, 0), (5, 3, 8, 5, 0)), (2, (20, 9, 16, 8, 0), (300, 3, 8, 8, 0)),
                             (3, (6, 5, 8, 3, 77), (6, 5, 8, 3, 0)), (3, (7, 6, 4, 4, 12345), (7, 2, 4, 3, 1)), (5, (4, 4, 8, 0, 0), (5, 4, 8, 0, 0))):
        for role in (1, 2, 3):
            ureqs.append("U %d %d 0 %d %d %d %d %d" % ((codec, role) + good))
            for stage in (1, 2):
                ureqs.append("U %d %d %d %d %d %d %d %d" % ((codec, role, stage) + good))
                ureqs.append("U %d %d %d %d %d %d %d %d" % ((codec, role, stage) + bad))
    uans, ucr = ldpc.run_dec(c.snap, ureqs)
    for rq, an in zip(ureqs, uans):
        if an.startswith(("CRASH", "SKIPPED")):
            c.violation("early release crashed: %s -> %s" % (rq, an[:200]), "session-crash", {"stream": "dec", "request": rq})
        elif not an.strip().endswith("LK0"):
            c.violation("a session released early left heap blocks behind: %s -> %s" % (rq, an.strip()), "leak", {"stream": "dec", "request": rq, "c_answer": an.strip()})
    c.cov["early_releases"] = len(ureqs)
    c.cov["explanation"] = ("malloc/calloc/realloc/free are wrapped at link time; after of_release_codec_instance and after the application freed exactly what the API says "
                            "it owns (its own buffers, callback buffers, decoded source symbols) the number of live heap blocks must be back to its value before the session; "
                            "double frees are ASan errors; sessions are released after any number of calls, with and without finish, both decoder roles")
    c.cov["explanation"] += ("; ownership ledgers (LdpcHeap.v, RSHeap.v): library-owned live blocks after set-up, after every submission call, after finish and after "
                             "release compared with the extracted model on every session (heap_ledgers_compared)")
    c.trusted = ["Coq kernel (Properties_C08.v: closed under the global context)", "LdpcHeap.v / RSHeap.v hand-written mirrors of the allocation sites; finish by persistent effect only",
                 "gcc 12 ASan runtime, -Wl,--wrap allocation counters in harness/drv_dec.c", "tools/sessions.py", "extraction (ExtrOcamlBasic), ocaml/driver.ml"]
