"""C20: eperftool block partitioning = RFC 5052.  Proof over the Gallina function generated from
blocking_struct.c (c2gallina + Flocq); correspondence on stream `blk`; exact-integer oracle on C."""
import vlib, gen_funcs

U32 = 2 ** 32 - 1


def rfc(B, L, E):
    T = -(-L // E)
    N = -(-T // B)
    return N, -(-T // N), T // N, T % N


def gen_cases(rng, tier):
    cases = []
    lim = 200 if tier == "quick" else 1200
    for T in range(1, lim + 1):               # exhaustive small space (E = 1: T = L)
        for B in range(1, lim + 1):
            cases.append((B, T, 1))
    edge = [1, 2, 3, 7, 255, 256, 257, 65535, 65536, 65537, 2 ** 24, 2 ** 26 - 1, 2 ** 26, 2 ** 26 + 1,
            2 ** 31 - 1, 2 ** 31, 2 ** 31 + 1, U32 - 1, U32]
    for B in edge:
        for L in edge:
            for E in (1, 2, 3, 1024, 65536, U32):
                cases.append((B, L, E))
    n = 6000 if tier == "quick" else 60000
    for _ in range(n):
        k = rng.below(4)
        if k == 0:
            B, L, E = rng.rng(1, U32), rng.rng(1, U32), rng.rng(1, U32)
        elif k == 1:                            # multiples +- 1
            E = rng.rng(1, 4096); B = rng.rng(1, 70000); q = rng.rng(1, max(1, U32 // (E * B)))
            L = min(U32, max(1, q * E * B + rng.rng(-1, 1))); 
        elif k == 2:                            # tiny B, huge L: N >= 2^31
            B, E = rng.rng(1, 2), 1; L = rng.rng(2 ** 31, U32)
        else:
            B = rng.rng(1, 1 << rng.rng(1, 31)); L = rng.rng(1, 1 << rng.rng(1, 32)) ; E = rng.rng(1, 1 << rng.rng(0, 16))
            L = min(L, U32)
        cases.append((B, L, E))
    return cases


def run(c):
    g = gen_funcs.gen_blocking(c.snap)
    for p in g["problems"]:
        c.proof_failed.append({"translator": p})
    c.prove(["Properties_C20.v"])
    cases = gen_cases(c.rng, c.tier)
    req = "".join("B %d %d %d\n" % x for x in cases)
    exe = vlib.build_c(c.snap, "drv_blk", "drv_blk.c", libsrc=False, extra_src=["applis/eperftool/blocking_struct.c"])
    rc, cout, cerr = vlib.sh([exe], input=req, timeout=900)
    cl = [l for l in cout.splitlines() if l.startswith("R ")]
    if rc != 0 or len(cl) != len(cases):
        c.violation("C driver crashed or truncated output (rc=%d) after %d answers: %s" % (rc, len(cl), cerr[-600:]),
                    "crash", {"stream": "blk", "request": req.splitlines()[min(len(cl), len(cases) - 1)], "stderr": cerr[-2000:]})
        cl += ["R ?"] * (len(cases) - len(cl))
    # model on a subset (binary64 through Flocq in OCaml is slow): every 7th exhaustive case + all others
    sub = [i for i, x in enumerate(cases) if not (x[2] == 1 and x[0] <= 1200 and x[1] <= 1200 and i % 7)]
    if c.tier == "quick":
        sub = sub[:9000]
    ml = None
    try:
        mexe = vlib.ocaml_model()
        rc2, mout, merr = vlib.sh([mexe], input="".join("B %d %d %d\n" % cases[i] for i in sub), timeout=1800)
        ml = mout.splitlines()
    except vlib.BuildError as e:
        c.proof_failed.append({"model_build": str(e)[-1500:]})
    distinct = set()
    for i, x in enumerate(cases):
        want = "R %d %d %d %d" % rfc(*x)
        distinct.add(x)
        if cl[i] != want:
            c.violation("B=%d L=%d E=%d: C returns %s, RFC 5052 gives %s" % (x + (cl[i], want)), "blk",
                        {"stream": "blk", "request": "B %d %d %d" % x, "c_answer": cl[i], "expected": want})
        N = rfc(*x)[0]
        c.dist("N>=2^31" if N >= 2 ** 31 else ("N=1" if N == 1 else "1<N<2^31"))
    if ml is not None:
        for j, i in enumerate(sub):
            if j >= len(ml) or ml[j] != cl[i]:
                if cl[i] == "R %d %d %d %d" % rfc(*cases[i]):
                    c.proof_failed.append({"correspondence": "blk", "request": "B %d %d %d" % cases[i], "c": cl[i],
                                           "model": ml[j] if j < len(ml) else None})
                    break
    c.cov["evaluations"] = len(cases)
    c.cov["distinct_nontrivial"] = len(distinct)
    c.cov["traces_validated_against_impl"] = len(sub) if ml is not None else 0
    c.cov["exhaustive_small_space"] = "all (T, B) with T, B <= %d at E = 1" % (200 if c.tier == "quick" else 1200)
    c.cov["rule"] = ("(B, L, E) triples: every (T,B) <= bound exhaustively, a grid of boundary values up to 2^32-1, and random triples aimed at "
                     "exact multiples +-1, tiny B with huge L (N >= 2^31) and mixed magnitudes; every triple is non-trivial (valid input); distinct = distinct triples")
    c.cov["samples"] = ["B %d %d %d" % cases[0], "B %d %d %d" % cases[len(cases) // 2], "B %d %d %d" % cases[-1]]
    c.cov["translator_skipped"] = g["skipped"]
    c.trusted = vlib.BASE_TRUST + [
        "tools/c2gallina.py + CSem.v (C operators: UINT32 values, IEEE binary64 round-to-nearest-even via Flocq, ceil/floor = Bnearbyint)",
        "Blocking.v: RFC 5052 section 9.1 partitioning transcribed from memory (the RFC text is not available offline)",
        "Flocq 4.1.0 and the standard-library real-number axioms listed by Print Assumptions"]
