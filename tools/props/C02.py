"""C02: RS codecs are MDS.  Proof (API half): RSApi.v / RSApiProofs.v; correspondence: every RS
session vs the extracted API model; oracle: completion exactly at k distinct symbols, decoded bytes."""
import vlib, session_check, sessions


class GF:
    def __init__(self, m):
        self.m, self.q = m, 1 << m
        poly = 0x13 if m == 4 else 0x11d
        self.exp, self.log = [0] * (2 * self.q), [0] * self.q
        x = 1
        for i in range(self.q - 1):
            self.exp[i] = x; self.log[x] = i
            x <<= 1
            if x >> m:
                x ^= poly
        for i in range(self.q - 1, 2 * self.q):
            self.exp[i] = self.exp[i - (self.q - 1)]

    def mul(self, a, b):
        return 0 if a == 0 or b == 0 else self.exp[self.log[a] + self.log[b]]

    def inv(self, a):
        return self.exp[(self.q - 1 - self.log[a]) % (self.q - 1)]


def py_inverse(F, A):
    """independent Gauss-Jordan (augmented matrix, partial pivoting); None if singular"""
    k = len(A)
    M = [list(A[i]) + [1 if i == j else 0 for j in range(k)] for i in range(k)]
    for c in range(k):
        p = next((r for r in range(c, k) if M[r][c]), None)
        if p is None:
            return None
        M[c], M[p] = M[p], M[c]
        iv = F.inv(M[c][c])
        M[c] = [F.mul(iv, x) for x in M[c]]
        for r in range(k):
            if r != c and M[r][c]:
                f = M[r][c]
                M[r] = [x ^ F.mul(f, y) for x, y in zip(M[r], M[c])]
    return [row[k:] for row in M]


def gen_matrix(rng, F, kmax):
    k = rng.choice([0, 1, 1, 2, 2, 3, 3, 4, 5, 6, 8, 11, 16]) if rng.chance(2, 3) else rng.rng(0, kmax)
    q = F.q
    kind = rng.below(11)
    A = [[rng.below(q) for _ in range(k)] for _ in range(k)]
    if kind == 0 and k:                                   # permutation matrix (zero diagonal likely: full pivot search, column unscrambling)
        perm = list(range(k)); rng.shuffle(perm)
        A = [[(rng.rng(1, q - 1) if perm[i] == j else 0) for j in range(k)] for i in range(k)]
    elif kind == 1 and k >= 2:                            # singular: one row is a combination of two others
        a, b, d = rng.below(k), rng.below(k), rng.below(k)
        if d not in (a, b):
            f, g = rng.below(q), rng.below(q)
            A[d] = [F.mul(f, x) ^ F.mul(g, y) for x, y in zip(A[a], A[b])]
    elif kind == 2 and k:                                 # zero row or zero column
        if rng.chance(1, 2):
            A[rng.below(k)] = [0] * k
        else:
            c0 = rng.below(k)
            for r in A:
                r[c0] = 0
    elif kind == 3 and k:                                 # decode-matrix shape: unit rows on the diagonal + dense rows
        for i in range(k):
            if rng.chance(2, 3):
                A[i] = [1 if j == i else 0 for j in range(k)]
    elif kind == 4 and k:                                 # sparse
        A = [[(x if rng.chance(1, 4) else 0) for x in row] for row in A]
    elif kind == 5 and k:                                 # zero diagonal
        for i in range(k):
            A[i][i] = 0
    elif kind in (6, 7, 8) and k:
        # entries in {0, 1}: the whole elimination then stays in {0, 1}, so rows that coincide with a 0/1 pattern kept in scratch storage
        # (the unit-row shortcut compares the pivot row with such a vector) occur with probability about 2^-k instead of 256^-k
        if k > 8 and rng.chance(3, 4):
            k = rng.rng(2, 8)
        A = [[rng.below(2) for _ in range(k)] for _ in range(k)]
        if kind >= 7:
            for i in range(k):
                A[i][i] = 1
        if kind == 8:                                     # unit rows mixed with 0/1 rows: the shape of a decoding matrix
            for i in range(k):
                if rng.chance(1, 2):
                    A[i] = [1 if j == i else 0 for j in range(k)]
    return k, A


def directed_sessions(c, impls):
    """Search for a failing SESSION after the inversion routines disagreed with the model on some matrix: every k-subset of the
    n symbols of a few (k, n) with many repair symbols, for the codecs whose inversion routine is affected (the decoding matrices
    of a session are unit rows + generator rows; which of them meet the defect is not known in advance)."""
    import itertools, ldpc
    reqs = []
    for impl in sorted(impls):
        codec, m = {1: (sessions.RS28, 0), 2: (sessions.RS2M, 8), 4: (sessions.RS2M, 4)}[impl]
        for (k, n) in ([(2, 15), (3, 15), (4, 15), (5, 12)] if impl == 4 else [(2, 40), (3, 40), (4, 22), (5, 14)]):
            subs = list(itertools.combinations(range(n), k))
            if len(subs) > 10000:
                subs = c.rng.sample(subs, 10000)
            for S in subs:
                reqs.append(sessions.Req(codec, k, n - k, 3, m, 0, c.rng.below(2), 0, 1, 2, list(S), pseed=c.rng.below(10 ** 9)))
    lines = [q.line() for q in reqs]
    ans, crashes = ldpc.run_dec(c.snap, lines)
    found = 0
    for q, ln, al in zip(reqs, lines, ans):
        a = ldpc.Ans(al)
        if a.crash:
            continue
        for pid, cls, msg in sessions.oracles(q, a):
            if pid in ("C01", "C02"):
                found += 1
                if found <= 3:
                    c.violation("%s  [%s]" % (msg, q.desc()), cls, {"stream": "dec", "request": ln, "c_answer": al[:1500], "property": pid, "found_by": "directed search after the inversion correspondence broke"})
    c.cov["directed_sessions"] = len(reqs)
    return found


def gj_correspondence(c):
    """the three C copies of the in-place Gauss-Jordan inversion vs the extracted model (GaussJordan.v, proved to return the
    inverse of every invertible matrix and to fail exactly on singular ones) and vs an independent python inversion"""
    rng = c.rng
    F8, F4 = GF(8), GF(4)
    reqs, meta = [], []
    for _ in range(900 if c.tier == "quick" else 9000):
        impl = rng.choice([1, 2, 4])
        F = F4 if impl == 4 else F8
        k, A = gen_matrix(rng, F, 24 if c.tier == "quick" else 60)
        hx = "".join("%02x" % x for row in A for x in row)
        reqs.append("W %d %d %s" % (impl, k, hx)); meta.append((impl, k, A, hx))
    exe = vlib.build_c(c.snap, "drv_gj", "drv_gj.c", exclude=("of_reed-solomon_gf_2_8.c",))
    ans, crashes = vlib.run_driver(exe, reqs, prefix="R")
    for kx, se in crashes[:4]:
        c.violation("matrix inversion crashed: %s" % reqs[kx][:120], "gj-crash", {"stream": "gj", "request": reqs[kx][:4000], "stderr": se})
    try:
        rc, mout, _ = vlib.sh([vlib.ocaml_model()], input="".join("W %d %d %s\n" % (4 if impl == 4 else 8, k, hx) for (impl, k, A, hx) in meta), timeout=3000)
        ml = mout.splitlines()
    except vlib.BuildError as e:
        c.proof_failed.append({"model_build": str(e)[-1500:]}); ml = []
    n_ok = 0
    bad_impls = set()
    for i, (impl, k, A, hx) in enumerate(meta):
        a = ans[i]
        if a.startswith(("CRASH", "SKIPPED")):
            continue
        F = F4 if impl == 4 else F8
        toks = a.split()
        code = toks[1]; got = toks[2] if len(toks) > 2 else ""
        want = py_inverse(F, A)
        c.dist("impl%d" % impl); c.dist("singular" if want is None else "invertible")
        if (code == "1") != (want is None) or (want is not None and got != "".join("%02x" % x for row in want for x in row)):
            c.violation("impl %d k=%d: the C returned error=%s %s, the matrix is %s" % (impl, k, code, got[:60], "singular" if want is None else "invertible with another inverse"),
                        "gj-wrong", {"stream": "gj", "request": reqs[i][:4000], "c_answer": a[:4000]})
            bad_impls.add(impl)
            continue
        mo = ml[i].split() if i < len(ml) else []
        if len(mo) < 2 or mo[1] != code or (code == "0" and (mo[2] if len(mo) > 2 else "") != got):
            c.proof_failed.append({"correspondence": "gj", "request": reqs[i][:2000], "c": a[:2000], "model": (ml[i] if i < len(ml) else "")[:2000]})
            bad_impls.add(impl)
            break
        n_ok += 1
    c.cov["gj_matrices_agreeing"] = n_ok
    if bad_impls:
        directed_sessions(c, bad_impls)
    return len(reqs), n_ok


def run(c):
    c.prove(["Properties_C02.v"])
    q = c.tier == "quick"
    session_check.run_sessions(c, (sessions.RS28, sessions.RS2M), {"C02", "C01"}, 250 if q else 3000, 1500 if q else 20000, big=not q)
    n_gj, ok_gj = gj_correspondence(c)
    c.cov["evaluations"] += n_gj
    c.cov["traces_validated_against_impl"] = c.cov.get("traces_validated_against_impl", 0) + ok_gj
    c.cov["partial"] = ("algebraic half (any k rows of the systematic Vandermonde generator invertible; Gauss-Jordan finds the inverse) is a hypothesis of the API theorems; "
                        "it is exercised on the C by every received subset of the small codes and sampled k up to 200")
    c.trusted = vlib.BASE_TRUST + ["RSApi.v: hand-written mirror of the decode_with_new_symbol/set_available_symbols/finish_decoding logic shared by both RS codecs",
                                   "hypothesis core_ok (MDS + correct matrix inversion) of the API theorems: not yet discharged in Coq"]
