"""C02: RS codecs are MDS.  Proof (API half): RSApi.v / RSApiProofs.v; correspondence: every RS
session vs the extracted API model; oracle: completion exactly at k distinct symbols, decoded bytes."""
import vlib, session_check, sessions


def run(c):
    c.prove(["Properties_C02.v"])
    q = c.tier == "quick"
    session_check.run_sessions(c, (sessions.RS28, sessions.RS2M), {"C02", "C01"}, 250 if q else 3000, 1500 if q else 20000, big=not q)
    c.cov["partial"] = ("algebraic half (any k rows of the systematic Vandermonde generator invertible; Gauss-Jordan finds the inverse) is a hypothesis of the API theorems; "
                        "it is exercised on the C by every received subset of the small codes and sampled k up to 200")
    c.trusted = vlib.BASE_TRUST + ["RSApi.v: hand-written mirror of the decode_with_new_symbol/set_available_symbols/finish_decoding logic shared by both RS codecs",
                                   "hypothesis core_ok (MDS + correct matrix inversion) of the API theorems: not yet discharged in Coq"]
