"""C17: sparse GF(2) matrix = set of pairs.  Proof: Sparse.v / SparseProofs.v (refinement of the
abstract set by every operation, sorted traversals, pool accounting); correspondence: stream
`sparse` (extracted model vs C under ASan: result of every op, full row and column traversals and
pool summary after every op); oracle: independent python set model."""
import re
import vlib


def gen_case(rng, big=False):
    nr = rng.rng(1, 40 if big else 9); nc = rng.rng(1, 40 if big else 9)
    if rng.chance(1, 10):
        nr = 1
    if rng.chance(1, 10):
        nc = 1
    ops = []
    cur = (nr, nc)
    S = set()

    def junk(r, c):
        n = rng.below(4)
        return ":".join("%d.%d" % (rng.below(r), rng.below(c)) for _ in range(n)) or "-"
    for _ in range(rng.rng(5, 60 if not big else 200)):
        r, c = cur
        k = rng.below(100)
        i, j = rng.below(r), rng.below(c)
        if S and rng.chance(1, 2) and k < 60:
            i, j = rng.choice(sorted(S))           # aim at existing entries (idempotent insert, delete, find hit)
        if k < 35:
            ops.append("i,%d,%d" % (i, j)); S.add((i, j))
        elif k < 50:
            ops.append("f,%d,%d" % (i, j))
        elif k < 65:
            ops.append("d,%d,%d" % (i, j)); S.discard((i, j))
        elif k < 69:
            ops.append("c"); S = set()
        elif k < 75:
            dr, dc = rng.below(3), rng.below(3)
            ops.append("y,%d,%d,%s" % (dr, dc, junk(r + dr, c + dc))); cur = (r + dr, c + dc)
        elif k < 80:
            rows = [rng.below(r) for _ in range(r)]
            if rng.chance(1, 6):
                rows[rng.below(r)] = r + rng.below(3)       # out of range: the copy stops there
            ops.append("%s,%s,%s" % (rng.choice("Rr"), ".".join(map(str, rows)), junk(r, c)))
        elif k < 85:
            cols = [rng.below(c) for _ in range(c)]
            if rng.chance(1, 6):
                cols[rng.below(c)] = c + rng.below(3)
            ops.append("%s,%s,%s" % (rng.choice("Ck"), ".".join(map(str, cols)), junk(r, c)))
        elif k < 88:
            r2, c2 = rng.rng(1, 9), rng.rng(1, 9)
            ir = [rng.below(r2) for _ in range(r)]; ic = [rng.below(c2) for _ in range(c)]
            ops.append("F,%s,%s,%d,%d" % (".".join(map(str, ir)), ".".join(map(str, ic)), r2, c2))
            S = {(ir[a], ic[b]) for (a, b) in S}; cur = (r2, c2)
        elif k < 91:
            ops.append("D")
        elif k < 94:
            ops.append("e,%d" % i)
        elif k < 97:
            ops.append("E,%d" % j)
        else:
            ops.append("w,%d" % i)
    return "M %d %d %s" % (nr, nc, " ".join(ops))


def gen_wide(rng):
    """few rows, many columns (33 .. 130, or one above 32767): entries at and around the multiples of 32 and 1024, with whole words left
    empty, and the dense round trip after most steps (seed C17h: the dense -> sparse conversion skipped column 32(w+1) after an all-zero
    word; seed C04h: entry coordinates narrowed to 16 bits)"""
    nr = rng.choice([1, 1, 2, 3]); nc = rng.choice([33, 64, 65, 96, 97, 128, 130, 1025, 33000 if rng.chance(1, 4) else 70])
    ops = []
    marks = [c for c in (0, 31, 32, 33, 63, 64, 65, 95, 96, 127, 128, 129, 1023, 1024, 32766, 32767, 32768, 32999) if c < nc] + [nc - 1]
    for _ in range(rng.rng(3, 14)):
        i, j = rng.below(nr), rng.choice(marks)
        k = rng.below(10)
        if k < 6:
            ops.append("i,%d,%d" % (i, j))
        elif k < 8:
            ops.append("d,%d,%d" % (i, j))
        else:
            ops.append("f,%d,%d" % (i, j))
        if nc <= 2000 and rng.chance(1, 2):
            ops.append("D")
        if rng.chance(1, 4):
            ops.append("E,%d" % rng.choice(marks))
    if nc <= 2000:
        ops.append("D")
    ops.append("w,%d" % rng.below(nr))
    return "M %d %d %s" % (nr, nc, " ".join(ops))


def parse_junk(s):
    return set() if s in ("", "-") else {tuple(int(x) for x in p.split(".")) for p in s.split(":")}


def oracle(req, ans):
    """independent set model; returns first failure message or None"""
    w = req.split(); nr, nc = int(w[1]), int(w[2]); ops = w[3:]
    toks = ans.split()[1:]
    if len(toks) != len(ops):
        return "answer has %d results for %d operations" % (len(toks), len(ops))
    S = set()
    for n, (op, tok) in enumerate(zip(ops, toks)):
        a = op.split(",")
        res, rest = tok.split("=", 1)
        rows_s, cols_s, pool = rest.split("|")[:3]
        want = 0
        if a[0] == "i":
            want = 0 if (int(a[1]), int(a[2])) in S else 1; S.add((int(a[1]), int(a[2])))
        elif a[0] == "f":
            want = 1 if (int(a[1]), int(a[2])) in S else 0
        elif a[0] == "d":
            want = 1 if (int(a[1]), int(a[2])) in S else 0; S.discard((int(a[1]), int(a[2])))
        elif a[0] == "c":
            S = set()
        elif a[0] == "y":
            nr += int(a[1]); nc += int(a[2])
        elif a[0] in "Rr":
            # copy rows: row i of the result = row rows[i] of the source, up to the first out-of-range index; the plain
            # version starts from an empty destination, the _opt version keeps what the destination held (junk)
            rows = [int(x) for x in a[1].split(".")]
            stop = next((i for i in range(nr) if rows[i] >= nr), nr)
            S = {(i, b) for i in range(stop) for (x, b) in S if x == rows[i]} | (parse_junk(a[2]) if a[0] == "r" else set())
        elif a[0] in "Ck":
            cols = [int(x) for x in a[1].split(".")]
            stop = next((j for j in range(nc) if cols[j] >= nc), nc)
            S = {(r_, j) for j in range(stop) for (r_, y) in S if y == cols[j]} | (parse_junk(a[2]) if a[0] == "k" else set())
        elif a[0] == "F":
            ir = [int(x) for x in a[1].split(".")]; ic = [int(x) for x in a[2].split(".")]
            S = {(ir[x], ic[y]) for (x, y) in S}; nr, nc = int(a[3]), int(a[4])
        elif a[0] == "e":
            want = 0 if any(x == int(a[1]) for (x, y) in S) else 1
        elif a[0] == "E":
            want = 0 if any(y == int(a[1]) for (x, y) in S) else 1
        elif a[0] == "w":
            want = sum(1 for (x, y) in S if x == int(a[1]))
        if int(res) != want:
            return "op %d (%s): result %s, set model says %d" % (n, op, res, want)
        rows = [[int(x) for x in r.split(".")] if r else [] for r in rows_s.split(";")]
        cols = [[int(x) for x in c.split(".")] if c else [] for c in cols_s.split(";")]
        if len(rows) != nr or len(cols) != nc:
            return "op %d (%s): dimensions %dx%d, expected %dx%d" % (n, op, len(rows), len(cols), nr, nc)
        for i, r in enumerate(rows):
            if r != sorted(y for (x, y) in S if x == i):
                return "op %d (%s): row %d traversal %s, set model %s" % (n, op, i, r, sorted(y for (x, y) in S if x == i))
        for j, cl in enumerate(cols):
            if cl != sorted(x for (x, y) in S if y == j):
                return "op %d (%s): column %d traversal %s, set model %s" % (n, op, j, cl, sorted(x for (x, y) in S if y == j))
        m = re.match(r"b(\d+)f(\d+)", pool)
        if int(m.group(1)) * 1024 != int(m.group(2)) + len(S):
            return "op %d (%s): pool %s does not account for %d live entries" % (n, op, pool, len(S))
    return None


def run(c):
    c.prove(["Properties_C17.v"], extra_targets=["SparseChk.vo"])
    blk = re.search(r"#define\s+of_mod2sparse_block\s+(\d+)", c.snap.read("of_matrix_sparse.h"))
    if not blk or int(blk.group(1)) != 1024:
        c.proof_failed.append({"translator": "of_mod2sparse_block is %s, the model's BLOCK is 1024" % (blk.group(1) if blk else None)})
    n = 400 if c.tier == "quick" else 4000
    reqs = [gen_case(c.rng, big=(i % 10 == 9)) for i in range(n)]
    reqs += [gen_wide(c.rng) for _ in range(n // 10)]
    # a few sequences that recycle many entries (more than one block)
    for _ in range(2 if c.tier == "quick" else 10):
        ops = []
        for rep in range(3):
            for i in range(36):
                for j in range(30):
                    ops.append("i,%d,%d" % (i, j))
            ops.append("c" if rep == 0 else "w,0")
            for i in range(0, 36, 2):
                for j in range(30):
                    ops.append("d,%d,%d" % (i, j))
        reqs.append("M 36 30 " + " ".join(ops[:1500]))
    exe = vlib.build_c(c.snap, "drv_sparse", "drv_sparse.c")
    ans, crashes = vlib.run_driver(exe, reqs, prefix="R", timeout=240)
    for k, se in crashes[:8]:
        c.violation("sparse matrix operation sequence crashed: %s" % ans[k][:200], "sparse-crash",
                    {"stream": "sparse", "request": reqs[k][:2000], "stderr": se})
    ml = None; il = None
    try:
        rc, mout, merr = vlib.sh([vlib.ocaml_model()], input="\n".join(reqs) + "\n", timeout=1800)
        ml = mout.splitlines()
        # entry-identity model (SparseId.v): the name (block, slot) of every entry and the free list after every op
        rc, mout, merr = vlib.sh([vlib.ocaml_model()], input="\n".join("S" + r[1:] for r in reqs) + "\n", timeout=1800)
        il = mout.splitlines()
    except vlib.BuildError as e:
        c.proof_failed.append({"model_build": str(e)[-1500:]})
    nops = 0
    for i, rq in enumerate(reqs):
        if ans[i].startswith(("CRASH", "SKIPPED")):
            continue
        nops += len(rq.split()) - 3
        msg = oracle(rq, ans[i])
        if msg:
            c.violation(msg, "sparse-set", {"stream": "sparse", "request": rq[:3000], "c_answer": ans[i][:3000]})
        else:
            ctoks = ans[i].split()[1:]
            base = "R " + " ".join("|".join(t.split("|")[:3]) for t in ctoks)
            names = ["|".join(t.split("|")[3:]) for t in ctoks]
            if ml is not None and (i >= len(ml) or ml[i] != base):
                c.proof_failed.append({"correspondence": "sparse", "request": rq[:1500], "c": base[:1500], "model": (ml[i] if i < len(ml) else "")[:1500]})
                ml = None
            if il is not None:
                mt = il[i].split()[1:] if i < len(il) else []
                for n_, (x, y) in enumerate(zip(names, mt)):
                    if y == "-":
                        break
                    c.cov["entry_name_states_compared"] = c.cov.get("entry_name_states_compared", 0) + 1
                    if x != y:
                        c.proof_failed.append({"correspondence": "sparse/entry-names", "request": rq[:1500], "after_op": n_, "c": x[:800], "model": y[:800],
                                               "note": "which slot of which block holds each entry, and the order of the free list, differ from the entry-identity model SparseId.v"})
                        il = None
                        break
        for op in rq.split()[3:]:
            c.dist(op[0])
    c.cov["evaluations"] = nops
    c.cov["distinct_nontrivial"] = len(set(reqs))
    c.cov["traces_validated_against_impl"] = len(reqs)
    c.cov["rule"] = ("operation sequences (5..60 ops, every tenth case up to 200 ops on up to 40x40) over allocate/insert/find/delete/clear/copy/copyrows/copycols (with out-of-range indices one time in six)/copyrows_opt/copycols_opt/"
                     "copy_filled_matrix/dense round trip/empty_row/empty_col/weight_row, dimensions 1..9 (1xN and Nx1 included), half of the index pairs aimed at existing entries, "
                     "plus sequences that recycle more than a block of entries; state compared after EVERY op; distinct = distinct request lines, all non-trivial")
    c.cov["samples"] = [reqs[0][:300], reqs[len(reqs) // 2][:300]]
    c.trusted = vlib.BASE_TRUST + ["Sparse.v: the doubly linked lists are modelled by what their traversals enumerate (two families of lists) and the pool by two counters; pointer-level list surgery is observed under ASan only"]
