"""C03: LDPC-Staircase of_finish_decoding is ML-complete."""
import vlib, session_check, sessions


def gen_extra(rng, tier):
    """received sets at the ML threshold: exactly k .. k+3 symbols, both APIs, several orders of the same set"""
    out = []
    for _ in range(120 if tier == "quick" else 1500):
        k = rng.rng(2, 24); r = rng.rng(3, 16); n1 = rng.rng(3, min(r, 6)); seed = rng.rng(1, 2 ** 31 - 2)
        n = k + r
        m = min(n, k + rng.choice([-1, 0, 0, 0, 1, 1, 2, 3]))
        S = rng.sample(range(n), max(0, m))
        for api in (0, 1, 0):
            h = list(S)
            rng.shuffle(h)
            out.append(sessions.Req(sessions.LDPC, k, r, 4, n1, seed, api, rng.below(4), 1, 2, sorted(h) if api else h, pseed=rng.below(10 ** 9)))
    return out


def run(c):
    c.prove(["Properties_C03.v"])
    q = c.tier == "quick"
    session_check.run_sessions(c, (sessions.LDPC,), {"C03"}, 200 if q else 3000, 1200 if q else 20000, extra_reqs=gen_extra(c.rng, c.tier), big=not q)
    c.trusted = vlib.BASE_TRUST + ["ITModel.v / MLModel.v / DenseSolve.v: hand-written mirrors of the streaming decoder and of the ML finish (callbacks, buffers and the counters nb_*_symbol_ready are not state of the model); tied to the C by replaying every finish session on the extracted model (stream J: statuses, completion, masks, decoded values) and by an independent GF(2) elimination on the C's matrix and received set",
                                    "hypotheses of the theorems about the matrix (duplicate-free rows of degree >= 2, every column covered, staircase shape) are evaluated on the matrix of every session"]
