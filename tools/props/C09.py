"""C09: parameters and arguments are validated.  Proof: Params.v decision functions = advertised limits
(limits regenerated from /repo's headers); correspondence: exhaustive boundary grid, model decision vs
status of of_set_fec_parameters on the compiled C; every accepted point of reasonable size is followed
by a full encode/lose/decode cycle; corrupted calls must return an error and leave the session usable."""
import os
import vlib, gen_consts, ldpc, sessions

U = 2 ** 32 - 1


def limits(codec, k, r, L, p1, p2, C):
    if codec == 1:
        return 1 <= k <= C["rs28_max_k"] and r >= 1 and k + r <= C["rs28_max_n"] and L >= 1
    if codec == 2:
        return p1 in (4, 8) and 1 <= k <= 2 ** p1 - 1 and r >= 1 and k + r <= 2 ** p1 - 1 and L >= 1
    return 1 <= k <= C["ldpc_max_k"] and r >= 1 and k + r <= C["ldpc_max_n"] and L >= 1 and 3 <= p1 <= r and 1 <= p2 <= 2 ** 31 - 2


def grid(C):
    pts = []
    for codec in (1, 2, 3):
        mk = {1: C["rs28_max_k"], 2: 255, 3: C["ldpc_max_k"]}[codec]
        mn = {1: C["rs28_max_n"], 2: 255, 3: C["ldpc_max_n"]}[codec]
        ks = sorted({0, 1, 2, 15, 16, mk - 1, mk, mk + 1, mn, 2 ** 16, 2 ** 31 - 1, 2 ** 31, U})
        rs = sorted({0, 1, 2, 3, 14, 15, mn - mk, mn - 1, mn, mn + 1, 2 ** 16, 2 ** 31, U})
        Ls = [0, 1, 4]
        p1s = [0] if codec == 1 else ([0, 1, 3, 4, 5, 7, 8, 9, 16] if codec == 2 else [0, 1, 2, 3, 4, 255])
        p2s = [0] if codec != 3 else [-1, 0, 1, 2 ** 31 - 2, 2 ** 31 - 1]
        for k in ks:
            for r in rs:
                for L in Ls:
                    for p1 in p1s:
                        for p2 in p2s:
                            pts.append((codec, k, r, L, p1, p2))
                    if codec == 3:                      # N1 relative to r
                        for p1 in (r - 1, r, r + 1):
                            if 0 <= p1 <= 255:
                                pts.append((codec, k, r, L, p1, 1))
    return pts


def run(c):
    g = gen_consts.generate(c.snap)
    C = g["consts"]
    c.prove(["Properties_C09.v"])
    pts = [p for p in grid(C)]
    # allocation guard: points the library accepts although outside the limits can ask for gigabytes
    reqs = ["A %d %d %d %d %d %d" % p for p in pts]
    exe = vlib.build_c(c.snap, "drv_params", "drv_params.c")
    env = dict(os.environ, ASAN_OPTIONS="detect_leaks=0:allocator_may_return_null=1:max_allocation_size_mb=2000")
    ans, crashes = vlib.run_driver(exe, reqs, prefix="R", env=env, timeout=1800)
    mreq = []
    accepted = []
    for i, p in enumerate(pts):
        codec, k, r, L, p1, p2 = p
        lim = limits(codec, k, r, L, p1, p2, C)
        c.dist("codec%d:%s" % (codec, "inside" if lim else "outside"))
        a = ans[i]
        if a.startswith(("CRASH", "SKIPPED")):
            cls = "rs2m-n-above-field" if (codec == 2 and p1 in (4, 8) and 1 <= k <= 2 ** p1 - 1 and r >= 1 and L >= 1 and k + r > 2 ** p1 - 1) else "params-crash"
            c.violation("of_set_fec_parameters crashed for codec=%d k=%d r=%d L=%d p1=%d p2=%d: %s" % (p + (a[:150],)), cls, {"request": reqs[i]})
            continue
        s1, s2 = [int(x) for x in a.split()[1][1:].split(",")]
        acc = (s1 == 0 and s2 == 0)
        if (s1 == 0) != (s2 == 0):
            c.violation("encoder and decoder sessions disagree on codec=%d k=%d r=%d L=%d p1=%d p2=%d (%d vs %d)" % (p + (s1, s2)), "params-role", {"request": reqs[i]})
        if acc != lim:
            cls = "rs2m-n-above-field" if (codec == 2 and acc and k + r > 2 ** p1 - 1) else "params-decision"
            c.violation("codec=%d k=%d r=%d L=%d p1=%d p2=%d is %s the advertised limits but of_set_fec_parameters returned %d/%d" % (
                        p + ("inside" if lim else "outside", s1, s2)), cls, {"request": reqs[i], "c_answer": a})
        if acc:
            accepted.append(p)
        mreq.append((i, acc))
    # model decision vs C decision (exhaustive on the grid)
    try:
        import subprocess
        lines = ["V %d %d %d %d %d %d" % p for p in pts]
        rc, mout, _ = vlib.sh([vlib.ocaml_model()], input="\n".join(lines) + "\n", timeout=600)
        ml = mout.splitlines()
        for (i, acc) in mreq:
            want = "1" if acc else "0"
            if i >= len(ml) or ml[i] != want:
                c.proof_failed.append({"correspondence": "params", "request": reqs[i], "c_accepts": acc, "model": ml[i] if i < len(ml) else None})
                break
    except vlib.BuildError as e:
        c.proof_failed.append({"model_build": str(e)[-1500:]})
    # accepted => usable: full cycle + corrupted calls for accepted points of reasonable size
    cyc = [p for p in accepted if p[1] + p[2] <= 3000 and p[3] >= 1 and limits(*p, C)]
    cyc = cyc if c.tier == "thorough" else c.rng.sample(cyc, min(len(cyc), 150))
    big = [p for p in accepted if p[1] + p[2] > 3000 and limits(*p, C)][:2]
    sreq = []
    for (codec, k, r, L, p1, p2) in cyc + big:
        n = k + r
        esis = c.rng.sample(range(n), min(n, k + 2))
        sreq.append(sessions.Req(codec, k, r, L, p1, p2, 0, 0, 1 if n <= 3000 else 0, 2, esis, pseed=c.rng.below(10 ** 9)))
    sans, scr = ldpc.run_dec(c.snap, [q.line() for q in sreq])
    for q, al in zip(sreq, sans):
        a = ldpc.Ans(al)
        for pid, cls, msg in sessions.oracles(q, a):
            c.violation("accepted configuration is not usable: %s [%s]" % (msg, q.desc()), "accepted-not-usable", {"request": q.line(), "c_answer": al[:600]})
    greq = ["G %d %d %d %d %d %d" % p for p in cyc if p[1] + p[2] <= 300]
    gans, gcr = vlib.run_driver(exe, greq, prefix="R", env=env)
    for rq, a in zip(greq, gans):
        if a.startswith(("CRASH", "SKIPPED")) or "G" not in a:
            c.violation("a corrupted call crashed the library: %s" % a[:200], "args-crash", {"request": rq})
            continue
        flags = a.split()[1][1:]
        usable = a.split()[2]
        if set(flags) != {"1"} or usable != "U1":
            c.violation("corrupted calls: error flags %s (all must be 1), session usable afterwards: %s" % (flags, usable), "args", {"request": rq, "c_answer": a})
    c.cov["evaluations"] = len(pts) + len(sreq) + len(greq)
    c.cov["distinct_nontrivial"] = len(set(pts))
    c.cov["traces_validated_against_impl"] = len(pts)
    c.cov["exhaustive"] = True
    c.cov["rule"] = ("grid: per codec, k and r over {0,1,2,15,16,limit-1,limit,limit+1,2^16,2^31-1,2^31,2^32-1,...} x L in {0,1,4} x m in {0,1,3,4,5,7,8,9,16} "
                     "x N1 in {0..4,255,r-1,r,r+1} x seed in {-1,0,1,2^31-2,2^31-1}; every point evaluated on the model and on the C (encoder and decoder session); "
                     "accepted points followed by a life cycle and by 13 corrupted calls; all points distinct and non-trivial")
    c.cov["samples"] = [reqs[0], reqs[len(reqs) // 2], greq[0] if greq else ""]
    c.trusted = vlib.BASE_TRUST + ["Params.v: hand-written mirror of the checks of the three set_fec_parameters functions; limits from gen/GenConsts.v (compiler reads the headers)"]
