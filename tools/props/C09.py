"""C09: parameters and arguments are validated.  Proof: Params.v decision functions = advertised limits
(limits regenerated from /repo's headers); correspondence: exhaustive boundary grid, model decision vs
status of of_set_fec_parameters on the compiled C; every accepted point of reasonable size is followed
by a full encode/lose/decode cycle; corrupted calls must return an error and leave the session usable."""
import os
import vlib, gen_consts, ldpc, sessions

U = 2 ** 32 - 1


def limits(codec, k, r, L, p1, p2, C):
    if codec == 1:
        return 1 <= k <= C["rs28_max_k"] and r >= 1 and k + r <= C["rs28_max_n"] and L >= 1
    if codec == 2:
        return p1 in (4, 8) and 1 <= k <= 2 ** p1 - 1 and r >= 1 and k + r <= 2 ** p1 - 1 and L >= 1
    return 1 <= k <= C["ldpc_max_k"] and r >= 1 and k + r <= C["ldpc_max_n"] and L >= 1 and 3 <= p1 <= r and 1 <= p2 <= 2 ** 31 - 2


def grid(C):
    pts = []
    for codec in (1, 2, 3):
        mk = {1: C["rs28_max_k"], 2: 255, 3: C["ldpc_max_k"]}[codec]
        mn = {1: C["rs28_max_n"], 2: 255, 3: C["ldpc_max_n"]}[codec]
        ks = sorted({0, 1, 2, 15, 16, mk - 1, mk, mk + 1, mn, 2 ** 16, 2 ** 31 - 1, 2 ** 31, U})
        rs = sorted({0, 1, 2, 3, 14, 15, mn - mk, mn - 1, mn, mn + 1, 2 ** 16, 2 ** 31, U})
        Ls = [0, 1, 4]
        p1s = [0] if codec == 1 else ([0, 1, 3, 4, 5, 7, 8, 9, 16] if codec == 2 else [0, 1, 2, 3, 4, 255])
        p2s = [0] if codec != 3 else [-1, 0, 1, 2 ** 31 - 2, 2 ** 31 - 1]
        for k in ks:
            for r in rs:
                for L in Ls:
                    for p1 in p1s:
                        for p2 in p2s:
                            pts.append((codec, k, r, L, p1, p2))
                    if codec == 3:                      # N1 relative to r
                        for p1 in (r - 1, r, r + 1):
                            if 0 <= p1 <= 255:
                                pts.append((codec, k, r, L, p1, 1))
    return pts


def call_grid(rng, codec, k, n):
    """every API function x {NULL, encoder, decoder, encoder+decoder session} x boundary ESIs x the pointers the API tests"""
    esis = sorted({0, k - 1, k, n - 1, n, n + 1, 2 ** 31, U} - {-1})
    calls = []
    for s in "0edb":
        cs = ["B:%d" % e for e in esis] + ["D:0:%d" % e for e in esis] + ["D:1:0", "D:1:%d" % n, "S:1", "C", "T", "K:1:1", "K:0:1", "K:1:0", "K:0:0",
              "G:1:0:4", "G:1:1:4", "G:1:0:2", "G:1:0:8", "G:2:0:4", "G:2:1:4", "G:2:0:0", "G:7:0:4", "G:0:0:4"]
        if s in "0e":
            cs += ["S:0", "F"]        # on decoder sessions these are valid and END the protocol (finish is the last step; the usability cycle below
                                      # calls of_finish_decoding itself, and the session streams exercise of_set_available_symbols): only refused ones here
        if codec == 3:
            cs.append("G:1024:0:1")
        elif s != "0":
            cs.append("G:1024:0:4")
        rng.shuffle(cs)
        calls += ["%s/%s" % (s, x) for x in cs]
    rng.shuffle(calls)
    return calls


def in_domain(tok, codec, k, n):
    """the documented domain, from the property text (independent of coq/ApiArgs.v)"""
    s, call = tok.split("/")
    f = call.split(":")
    if s == "0":
        return False
    enc, dec = s in "eb", s in "db"
    if f[0] == "B":
        return enc and k <= int(f[1]) <= n - 1
    if f[0] == "D":
        return dec and f[1] == "0" and 0 <= int(f[2]) <= n - 1
    if f[0] == "S":
        return dec and f[1] == "0"
    if f[0] in "FCT":
        return dec
    if f[0] == "K":
        return not (f[1] == "1" and f[2] == "1")
    if f[0] == "G":
        return (f[1] in ("1", "2") and f[2] == "0" and f[3] == "4") or (f[1] == "1024" and codec == 3)
    return False


def api_calls(c, C, exe, env, points):
    """second half of C09: argument checks of every API function, C vs coq/ApiArgs.v vs the documented domain"""
    pts = [p for p in points if p[1] + p[2] <= 120]
    pts = c.rng.sample(pts, min(len(pts), 40 if c.tier == "quick" else 400))
    reqs, grids = [], []
    for (codec, k, r, L, p1, p2) in pts:
        g = call_grid(c.rng, codec, k, k + r)
        grids.append(g)
        reqs.append("H %d %d %d %d %d %d %s" % (codec, k, r, L, p1, p2, " ".join(g)))
    ans, cr = vlib.run_driver(exe, reqs, prefix="R", env=env)
    mlines = ["A %d %d %d %s" % (p[0], p[1], p[2], " ".join(g)) for p, g in zip(pts, grids)]
    try:
        rc, mout, _ = vlib.sh([vlib.ocaml_model()], input="\n".join(mlines) + "\n", timeout=600)
        ml = mout.splitlines()
    except vlib.BuildError as e:
        c.proof_failed.append({"model_build": str(e)[-1500:]})
        ml = []
    ncalls = 0
    for i, (p, g, rq, a) in enumerate(zip(pts, grids, reqs, ans)):
        codec, k, r, L, p1, p2 = p
        if a.startswith(("CRASH", "SKIPPED")) or " H" not in a:
            c.violation("an API call with a bad argument crashed the library (codec=%d k=%d r=%d): %s" % (codec, k, r, a[:200]), "args-crash", {"request": rq})
            continue
        toks = a.split()
        st = toks[1][1:].split(",")
        mv = ml[i].split(",") if i < len(ml) else []
        for j, (tok, s) in enumerate(zip(g, st)):
            ncalls += 1
            fn = tok.split("/")[1][0]
            dom = in_domain(tok, codec, k, k + r)
            c.dist("api:%s:%s" % (fn, "inside" if dom else "outside"))
            # statuses a call inside its domain may return: the completion query answers; finish may report FAILURE; the two RS codecs answer
            # of_get_source_symbols_tab with OF_STATUS_ERROR until decoding is complete; of_set_control_parameter's own argument checks
            good = (s in ("100", "101")) if fn == "C" else (s in ("0", "1") if fn == "F" else (s in ("0", "2") if fn == "T" else s == "0"))
            bad = (s == "101") if fn == "C" else (s not in ("0", "1", "100"))
            if dom and not good:
                c.violation("%s on codec %d (k=%d, n=%d) is inside the documented domain but returned %s" % (tok, codec, k, k + r, s), "args", {"request": rq, "call": tok, "c_answer": a[:400]})
            if not dom and not bad:
                c.violation("%s on codec %d (k=%d, n=%d) is outside the documented domain but returned %s (no error)" % (tok, codec, k, k + r, s), "args", {"request": rq, "call": tok, "c_answer": a[:400]})
            if j < len(mv):
                want = {"D": ("0", "1", "100", "101") if fn in "FC" else (("0", "2") if fn == "T" else ("0",)), "3": ("3",), "2": ("2",), "f": ("101",)}[mv[j]]
                if s not in want:
                    c.proof_failed.append({"correspondence": "api-args", "call": tok, "codec": codec, "k": k, "r": r, "c_status": s, "model_verdict": mv[j], "request": rq[:300]})
                    break
        if len(mv) != len(g):
            c.proof_failed.append({"correspondence": "api-args", "request": rq[:300], "model": (ml[i] if i < len(ml) else "")[:300]})
        if toks[2] != "U111":
            c.violation("after the bad calls the sessions are no longer usable (encoder, decoder, encoder+decoder: %s) codec=%d k=%d r=%d" % (toks[2], codec, k, r),
                        "args", {"request": rq, "c_answer": a[:400]})
        mk, mn = [int(x) for x in toks[3][1:].split(",")]
        wk, wn = {1: (C["rs28_max_k"], C["rs28_max_n"]), 2: (2 ** p1 - 1, 2 ** p1 - 1), 3: (C["ldpc_max_k"], C["ldpc_max_n"])}[codec]
        if (mk, mn) != (wk, wn):
            c.violation("of_get_control_parameter reports MAX_K=%d MAX_N=%d for codec %d, the limits enforced are %d, %d" % (mk, mn, codec, wk, wn), "args-limits", {"request": rq})
    c.cov["api_calls"] = ncalls
    return ncalls


def run(c):
    g = gen_consts.generate(c.snap)
    C = g["consts"]
    # the parameter checks of the three set_fec_parameters functions and of the matrix construction, regenerated from the source;
    # Properties_C09.v proves that they are the decision functions accept_* the theorems are about (ParamsTie.v)
    import gen_params
    gp = gen_params.generate(c.snap)
    for pbm in gp["problems"]:
        c.proof_failed.append({"translator": pbm})
    c.prove(["Properties_C09.v"])
    pts = [p for p in grid(C)]
    # allocation guard: points the library accepts although outside the limits can ask for gigabytes
    reqs = ["A %d %d %d %d %d %d" % p for p in pts]
    exe = vlib.build_c(c.snap, "drv_params", "drv_params.c")
    env = dict(os.environ, ASAN_OPTIONS="detect_leaks=0:allocator_may_return_null=1:max_allocation_size_mb=2000")
    ans, crashes = vlib.run_driver(exe, reqs, prefix="R", env=env, timeout=1800)
    mreq = []
    accepted = []
    for i, p in enumerate(pts):
        codec, k, r, L, p1, p2 = p
        lim = limits(codec, k, r, L, p1, p2, C)
        c.dist("codec%d:%s" % (codec, "inside" if lim else "outside"))
        a = ans[i]
        if a.startswith(("CRASH", "SKIPPED")):
            cls = "rs2m-n-above-field" if (codec == 2 and p1 in (4, 8) and 1 <= k <= 2 ** p1 - 1 and r >= 1 and L >= 1 and k + r > 2 ** p1 - 1) else "params-crash"
            c.violation("of_set_fec_parameters crashed for codec=%d k=%d r=%d L=%d p1=%d p2=%d: %s" % (p + (a[:150],)), cls, {"request": reqs[i]})
            continue
        s1, s2 = [int(x) for x in a.split()[1][1:].split(",")]
        acc = (s1 == 0 and s2 == 0)
        if (s1 == 0) != (s2 == 0):
            c.violation("encoder and decoder sessions disagree on codec=%d k=%d r=%d L=%d p1=%d p2=%d (%d vs %d)" % (p + (s1, s2)), "params-role", {"request": reqs[i]})
        if acc != lim:
            cls = "rs2m-n-above-field" if (codec == 2 and acc and k + r > 2 ** p1 - 1) else "params-decision"
            c.violation("codec=%d k=%d r=%d L=%d p1=%d p2=%d is %s the advertised limits but of_set_fec_parameters returned %d/%d" % (
                        p + ("inside" if lim else "outside", s1, s2)), cls, {"request": reqs[i], "c_answer": a})
        if acc:
            accepted.append(p)
        mreq.append((i, acc))
    # model decision vs C decision (exhaustive on the grid)
    try:
        import subprocess
        lines = ["V %d %d %d %d %d %d" % p for p in pts]
        rc, mout, _ = vlib.sh([vlib.ocaml_model()], input="\n".join(lines) + "\n", timeout=600)
        ml = mout.splitlines()
        for (i, acc) in mreq:
            want = "1" if acc else "0"
            if i >= len(ml) or ml[i] != want:
                c.proof_failed.append({"correspondence": "params", "request": reqs[i], "c_accepts": acc, "model": ml[i] if i < len(ml) else None})
                break
    except vlib.BuildError as e:
        c.proof_failed.append({"model_build": str(e)[-1500:]})
    # accepted => usable: full cycle + corrupted calls for accepted points of reasonable size
    cyc = [p for p in accepted if p[1] + p[2] <= 3000 and p[3] >= 1 and limits(*p, C)]
    cyc = cyc if c.tier == "thorough" else c.rng.sample(cyc, min(len(cyc), 150))
    big = [p for p in accepted if p[1] + p[2] > 3000 and limits(*p, C)][:2]
    sreq = []
    for (codec, k, r, L, p1, p2) in cyc + big:
        n = k + r
        esis = c.rng.sample(range(n), min(n, k + 2))
        sreq.append(sessions.Req(codec, k, r, L, p1, p2, 0, 0, 1 if n <= 3000 else 0, 2, esis, pseed=c.rng.below(10 ** 9)))
    sans, scr = ldpc.run_dec(c.snap, [q.line() for q in sreq])
    for q, al in zip(sreq, sans):
        a = ldpc.Ans(al)
        for pid, cls, msg in sessions.oracles(q, a):
            c.violation("accepted configuration is not usable: %s [%s]" % (msg, q.desc()), "accepted-not-usable", {"request": q.line(), "c_answer": al[:600]})
    greq = ["G %d %d %d %d %d %d" % p for p in cyc if p[1] + p[2] <= 300]
    gans, gcr = vlib.run_driver(exe, greq, prefix="R", env=env)
    for rq, a in zip(greq, gans):
        if a.startswith(("CRASH", "SKIPPED")) or "G" not in a:
            c.violation("a corrupted call crashed the library: %s" % a[:200], "args-crash", {"request": rq})
            continue
        flags = a.split()[1][1:]
        usable = a.split()[2]
        if set(flags) != {"1"} or usable != "U1":
            c.violation("corrupted calls: error flags %s (all must be 1), session usable afterwards: %s" % (flags, usable), "args", {"request": rq, "c_answer": a})
    n_api = api_calls(c, C, exe, env, [p for p in cyc if p[1] + p[2] <= 300])
    c.cov["evaluations"] = len(pts) + len(sreq) + len(greq) + n_api
    c.cov["distinct_nontrivial"] = len(set(pts))
    c.cov["traces_validated_against_impl"] = len(pts)
    c.cov["exhaustive"] = True
    c.cov["rule"] = ("grid: per codec, k and r over {0,1,2,15,16,limit-1,limit,limit+1,2^16,2^31-1,2^31,2^32-1,...} x L in {0,1,4} x m in {0,1,3,4,5,7,8,9,16} "
                     "x N1 in {0..4,255,r-1,r,r+1} x seed in {-1,0,1,2^31-2,2^31-1}; every point evaluated on the model and on the C (encoder and decoder session); "
                     "accepted points followed by a life cycle and by 13 corrupted calls; all points distinct and non-trivial. API arguments: for sampled accepted "
                     "configurations every API function is called on a NULL / encoder / decoder / encoder+decoder session with ESIs {0,k-1,k,n-1,n,n+1,2^31,2^32-1} and "
                     "each tested pointer NULL or not (about 230 calls per configuration, shuffled); status compared with coq/ApiArgs.v and with the documented domain; "
                     "afterwards all three sessions must still encode / decode the block")
    c.cov["samples"] = [reqs[0], reqs[len(reqs) // 2], greq[0] if greq else ""]
    c.trusted = vlib.BASE_TRUST + ["Params.v: decision functions; proved equal (ParamsTie.v) to gen/GenParams.v, which tools/gen_params.py regenerates on every run from the validation prefixes of the "
                                     "three set_fec_parameters functions and of of_create_pchck_matrix_rfc5170_compliant (clang + c2gallina); limits from gen/GenConsts.v (compiler reads the headers)",
                                     "gen_params.py: what ends a validation prefix (first allocation / matrix construction call) is checked against the expected statement; a test placed behind it would be invisible to the translator and is left to the grid"]
