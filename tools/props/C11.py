"""C11: decoded-source-symbol callback contract.  Proof: RS API model (one callback per missing source
at decoding time, none for received symbols); correspondence: RS API model vs C incl. callback ESIs;
oracle: callback multiset / size / buffer identity for all codecs and callback modes."""
import vlib, session_check, sessions


def run(c):
    c.prove(["Properties_C11.v"])
    q = c.tier == "quick"
    # callbacks registered in three quarters of the random sessions; the small exhaustive sets use all four modes
    session_check.run_sessions(c, (sessions.RS28, sessions.RS2M, sessions.LDPC), {"C11"}, 300 if q else 3000, 700 if q else 8000, big=not q)
    c.cov["partial"] = "LDPC-Staircase producers (IT step 3, ML simplification, ML Gaussian stage) are decided by the C-side oracle only"
    c.trusted = vlib.BASE_TRUST + ["RSApi.v hand-written mirror of the copy-out loop of finish_decoding"]
