"""C19: RFC 5170 PRNG = Park-Miller.  Proof over the Gallina function *generated from of_rand.c*
(c2gallina) + Flocq; correspondence: extracted model vs compiled C on stream `prng`; oracle on the
C output by exact integer arithmetic."""
import vlib, gen_funcs

P = 2147483647


def gen_cases(rng, n):
    cases = []
    seeds = [1, 2, 3, 16807, 65535, 65536, 65537, 32767 * 65536, P - 1, P - 2, 1407677000, 1043618065, 2 ** 30, 2 ** 30 + 1]
    maxvs = [1, 2, 3, 7, 8, 9, 255, 2 ** 22 - 1, 2 ** 22, 2 ** 22 + 1, 4194304, 12750000, 12749999, 50000, 65536, 2 ** 24]
    for s in seeds:
        cases.append(("P", s, "-", [rng.choice(maxvs) for _ in range(6)] + maxvs))
    # seeding: in range, boundaries, out of range (state must be left alone)
    for arg in [0, 1, 2, P - 1, P, P + 1, 2 ** 31, 2 ** 32, 2 ** 32 + 5, 2 ** 63, 2 ** 64 - 1]:
        cases.append(("P", rng.rng(1, P - 1), arg, [rng.choice(maxvs) for _ in range(3)]))
    # directed at the case split of the quotient lemma: s'*maxv just above / just below a multiple of P
    # (where a differently rounded scaling expression first departs from the exact floor)
    inv16807 = 1407677000
    for _ in range(n * 40):
        mv = rng.choice([rng.rng(2, 12750000), rng.rng(2 ** 23, 12750000), rng.rng(2 ** 23, 12750000), rng.rng(2 ** 21, 2 ** 22), rng.rng(2 ** 21, 2 ** 22), rng.rng(2, 4000), 12750000, 2 ** 22])
        r = rng.choice([1, 2, 3, P - 1, P - 1, P - 1, P - 2, P - 3])
        s1 = r * pow(mv, P - 2, P) % P          # s1 * mv = r (mod P)
        s0 = s1 * inv16807 % P                   # next state of s0 is s1
        if 1 <= s0 <= P - 1:
            cases.append(("P", s0, "-", [mv]))
    while len(cases) < n * 42:
        s = rng.rng(1, P - 1)
        k = rng.rng(1, 12)
        mv = []
        for _ in range(k):
            r = rng.below(4)
            if r == 0:
                mv.append(rng.choice(maxvs))
            elif r == 1:
                mv.append(rng.rng(1, 12750000))
            elif r == 2:
                mv.append(rng.rng(2 ** 22 - 3, 2 ** 22 + 3))   # products around 2^53
            else:
                mv.append(rng.rng(1, 300))
        cases.append(("P", s, "-" if rng.chance(3, 4) else rng.rng(0, 2 ** 32), mv))
    # small states: 16807 * s stays below 2^31-1 up to s = 127773 (no reduction happens), and below 2^31 up to 127773 as well; a fast path for
    # small states would show just above (seed C19i: states 127774..131071 reduced modulo 2^31)
    for s in [127772, 127773, 127774, 127775, 131071, 131072, 131073, 2 ** 17 + 2 ** 16] + [rng.rng(1, 2 ** 18) for _ in range(300)]:
        cases.append(("P", s, "-", [rng.choice(maxvs), 3]))
    # long runs from one seed (a slip that needs many draws to show: a counter, a periodic reseeding)
    for ln in ([60000] if n <= 400 else [60000, 60000, 60000]):
        cases.append(("P", rng.rng(1, P - 1), "-", [rng.choice([2, 3, 255, 256, 1024, 50000, 65536]) for _ in range(ln)]))
    return cases


def oracle(case, answer):
    """C19 on the implementation's output (exact integers): returns list of failures."""
    _, s0, sr, mvs = case
    w = answer.split()
    bad = []
    try:
        vals = [int(x) for x in w]
    except ValueError:
        return ["unparsable answer %r" % answer]
    st = s0
    if sr != "-" and 1 <= sr <= P - 1:
        st = sr
    if vals[0] != st:
        bad.append("seeding with %s from state %d left state %d (expected %d)" % (sr, s0, vals[0], st))
        st = vals[0]
    for i, mv in enumerate(mvs):
        if 1 + 2 * i + 1 >= len(vals):
            bad.append("short answer"); break
        o, s1 = vals[1 + 2 * i], vals[2 + 2 * i]
        if not (1 <= st <= P - 1):
            break
        want = 16807 * st % P
        if s1 != want:
            bad.append("state %d -> %d, Park-Miller gives %d" % (st, s1, want))
        if mv >= 1 and not (0 <= o < mv):
            bad.append("state %d maxv %d: output %d outside 0..maxv-1" % (st, mv, o))
        if mv >= 1 and s1 * mv < 2 ** 53 and o != s1 * mv // P:
            bad.append("state %d maxv %d: output %d, exact floor is %d" % (st, mv, o, s1 * mv // P))
        # RFC 5170's reference expression, evaluated in binary64 (python floats are IEEE doubles, round to nearest even)
        if mv >= 1 and 1 <= s1 <= P - 1 and o != int(float(s1) * float(mv) / float(P)):
            bad.append("state %d maxv %d: output %d, RFC 5170's expression (double)s'*(double)maxv/(double)(2^31-1) gives %d" % (st, mv, o, int(float(s1) * float(mv) / float(P))))
        st = s1
    return bad


def run(c):
    g = gen_funcs.gen_prng(c.snap)
    for p in g["problems"]:
        c.proof_failed.append({"translator": p})
    c.prove(["Properties_C19.v"])
    n = 400 if c.tier == "quick" else 4000
    cases = gen_cases(c.rng, n)
    req = "".join("%s %d %s %s\n" % (k, s, sr, " ".join(map(str, mv))) for k, s, sr, mv in cases)
    exe = vlib.build_c(c.snap, "drv_prng", "drv_prng.c")
    rc, cout, cerr = vlib.sh([exe], input=req, timeout=600)
    cl = cout.splitlines()
    if rc != 0 or len(cl) != len(cases):
        c.violation("C driver crashed or truncated output (rc=%d): %s" % (rc, cerr[-500:]), "crash", {"stream": "prng", "stderr": cerr[-2000:]})
        cl += [""] * (len(cases) - len(cl))
    try:
        mexe = vlib.ocaml_model()
        rc2, mout, merr = vlib.sh([mexe], input=req, timeout=900)
        ml = mout.splitlines()
    except vlib.BuildError as e:
        ml = None
        c.proof_failed.append({"model_build": str(e)[-1500:]})
    nontriv = set()
    calls = 0
    for i, case in enumerate(cases):
        bad = oracle(case, cl[i])
        calls += len(case[3])
        if len(case[3]) >= 1:
            nontriv.add((case[1], case[2], tuple(case[3])))
        for b in bad[:1]:
            c.violation(b, "prng", {"stream": "prng", "request": req.splitlines()[i], "c_answer": cl[i]})
        if ml is not None and not bad:
            if i >= len(ml) or ml[i] != cl[i]:
                c.proof_failed.append({"correspondence": "prng", "request": req.splitlines()[i], "c": cl[i],
                                       "model": ml[i] if i < len(ml) else None})
        c.dist("above_2p53" if any(mv * P > 2 ** 53 for mv in case[3]) else "below_2p53")
        c.dist("srand" if case[2] != "-" else "no_srand")
    if c.tier == "thorough":
        # long consecutive walk of the C from seed 1 (states only)
        mv = [1] * 20000
        rq = "P 1 - " + " ".join(map(str, mv)) + "\n"
        rc, out, _ = vlib.sh([exe], input=rq, timeout=600)
        for b in oracle(("P", 1, "-", mv), out.strip())[:1]:
            c.violation(b, "prng", {"stream": "prng", "request": "walk from 1"})
        w = out.split()
        if len(w) > 20000 and int(w[2 * 10000]) != 1043618065:
            c.violation("10,000th state after seed 1 is %s" % w[2 * 10000], "prng", {"request": "walk"})
        calls += 20000
    c.cov["evaluations"] = calls
    c.cov["distinct_nontrivial"] = len(nontriv)
    c.cov["traces_validated_against_impl"] = len(cases)
    c.cov["rule"] = ("request = (initial state in 1..2^31-2, optional srand argument incl. out-of-range values, list of maxv); "
                     "boundary seeds/maxv, maxv around 2^22 (products around 2^53) and up to 2^24, random; "
                     "non-trivial = at least one generator call; distinct = distinct (state, srand, maxv list)")
    c.cov["samples"] = [req.splitlines()[0], req.splitlines()[len(cases) // 2], req.splitlines()[-1]]
    c.cov["translator_skipped"] = g["skipped"]
    c.trusted = vlib.BASE_TRUST + [
        "tools/c2gallina.py: C -> Gallina for straight-line integer/double code (clang AST); CSem.v gives the C operators their meaning (UINT64 wrap, IEEE binary64 round-to-nearest-even via Flocq)",
        "Flocq 4.1.0 (Bmult/Bdiv/Btrunc and their correctness theorems); standard-library real-number axioms as listed by Print Assumptions"]
