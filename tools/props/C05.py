"""C05: the LDPC-Staircase matrix depends only on (k, n, N1, seed) and is the RFC 5170 construction.
Proof: Pchk.v (model on the sparse-matrix model + generated PRNG) ignores the PRNG state at entry for
accepted seeds; correspondence: stream `pchk`, C matrix vs model matrix entry by entry, for encoder and
decoder sessions, in fresh state and after other sessions; oracle: all C matrices of one parameter set equal."""
import vlib, gen_funcs

P = 2147483647


def strip_col(hs, col):
    rows = hs.split("/")
    return "/".join(",".join(x for x in r.split(",") if x and int(x) != col) for r in rows)


def rfc5170_matrix(k, r, n1, seed):
    """RFC 5170 section 6.2.1 (left_matrix_init, pseudo-code of the RFC) + 4.2.x staircase, written from the RFC's text,
    not from the C: Park-Miller pmms_rand, homogeneous '1' distribution through the list u[], extra bits for rows of
    degree < 2, lower staircase.  Returns rows as sorted column lists in the library's column space (repairs first)."""
    st = [seed]

    def pmms_rand(maxv):
        hi, lo = 16807 * (st[0] >> 16), 16807 * (st[0] & 0xFFFF)
        lo += (hi & 0x7FFF) << 16
        lo += hi >> 15
        if lo > 0x7FFFFFFF:
            lo -= 0x7FFFFFFF
        st[0] = lo
        return int(float(lo) * float(maxv) / float(0x7FFFFFFF))
    rows = [set() for _ in range(r)]
    u = [h % r for h in range(n1 * k)]
    t = 0
    for j in range(k):
        for _h in range(n1):
            i = t
            while i < n1 * k and j in rows[u[i]]:
                i += 1
            if i < n1 * k:
                while True:
                    i = t + pmms_rand(n1 * k - t)
                    if j not in rows[u[i]]:
                        break
                rows[u[i]].add(j)
                u[i] = u[t]
                t += 1
            else:
                while True:
                    i = pmms_rand(r)
                    if j not in rows[i]:
                        break
                rows[i].add(j)
    for i in range(r):
        if len(rows[i]) == 0:
            rows[i].add(pmms_rand(k))
        if len(rows[i]) == 1 and k > 1:
            while True:
                j = pmms_rand(k)
                if j not in rows[i]:
                    break
            rows[i].add(j)
    out = []
    for i in range(r):
        rep = [i] if i == 0 else [i - 1, i]
        out.append(sorted(rep + [j + r for j in rows[i]]))
    return "/".join(",".join(map(str, row)) for row in out)


def run(c):
    g = gen_funcs.gen_prng(c.snap)
    for p in g["problems"]:
        c.proof_failed.append({"translator": p})
    c.prove(["Properties_C05.v"])
    rng = c.rng
    params = []
    grid = [(1, 3, 3), (2, 3, 3), (1, 4, 3), (6, 5, 3), (10, 6, 4), (10, 5, 3), (3, 3, 3), (20, 10, 5), (8, 24, 4), (30, 8, 8),
            (50, 25, 3), (40, 7, 7), (5, 40, 3), (64, 32, 5), (100, 20, 6)]
    if c.tier == "thorough":
        grid += [(200, 100, 3), (500, 100, 5), (1000, 500, 3), (150, 150, 7), (2000, 300, 3)]
    seeds = [1, 2, 12345, P - 1, P - 2, 1043618065]
    for (k, r, n1) in grid:
        for s in seeds[: (3 if c.tier == "quick" else 6)] + [rng.rng(1, P - 1)]:
            params.append((k, r, n1, s))
    for _ in range(60 if c.tier == "quick" else 600):
        k = rng.rng(1, 60); r = rng.rng(3, 40); n1 = rng.rng(3, min(r, 9))
        params.append((k, r, n1, rng.rng(1, P - 1)))
    # every small shape: the construction's special cases (k = 1, 2, 3; N1 = r and N1 < r; rows left with 0 or 1 entries) live here
    nfull = len(params)
    for k in range(1, 5):
        for r in range(3, 13 if c.tier == "quick" else 25):
            for n1 in range(3, min(r, 6) + 1):
                params.append((k, r, n1, rng.rng(1, P - 1)))
    reqs, meta = [], []
    for pi, (k, r, n1, s) in enumerate(params):
        for role in (1, 2):
            for hist in (range(3) if pi < nfull else (rng.below(3),)):
                pre = "-"
                if hist:
                    pre = ",".join("%d:%d:%d:%d" % (rng.rng(1, 30), rng.rng(3, 20), 3, rng.rng(1, P - 1)) for _ in range(hist))
                    if rng.chance(1, 2):
                        # the session just before the target is a near twin: equal in all parameters but one (seed C05h: a cache of the last
                        # matrix keyed on (n-k, n, seed) without N1)
                        tw = rng.below(3)
                        n1b = rng.choice([x for x in range(3, min(r, 14) + 1) if x != n1] or [n1])
                        twin = (k, r, n1b, s) if tw == 0 else (k, r, n1, rng.rng(1, P - 1)) if tw == 1 else (max(1, k + rng.choice([-1, 1])), r, n1, s)
                        pre = ",".join(pre.split(",")[:-1] + ["%d:%d:%d:%d" % twin])
                # one request in eight is created with verbosity 2 (the library traces; seed C05i turned a dormant PRNG self-test on there);
                # one in four has other sessions configured AFTER the target and alive while its matrix and claim are read (seed C15i)
                vrole = role + (10 if rng.chance(1, 8) else 0)
                post = ""
                if rng.chance(1, 4):
                    post = " " + ",".join("%d:%d:%d:%d" % (rng.rng(1, 60), rng.rng(3, 40), rng.choice([3, 4, 4, 6]), rng.rng(1, P - 1)) for _ in range(rng.rng(1, 3)))
                reqs.append("Q %d %d %d %d %d %s%s" % (k, r, n1, s, vrole, pre, post)); meta.append((k, r, n1, s, role, hist))
    exe = vlib.build_c(c.snap, "drv_pchk", "drv_pchk.c")
    ans, crashes = vlib.run_driver(exe, reqs, prefix="R")
    for kx, se in crashes[:5]:
        c.violation("matrix construction crashed: %s" % ans[kx][:200], "pchk-crash", {"stream": "pchk", "request": reqs[kx], "stderr": se})
    mreq, midx = [], []
    byparam = {}
    rfc_done = set()
    for i, (k, r, n1, s, role, hist) in enumerate(meta):
        w = dict((t[0] if t[0] != "G" or not t.startswith("G0") else "G0", t) for t in ans[i].split()[1:]) if not ans[i].startswith(("CRASH", "SKIPPED")) else None
        if w is None:
            continue
        toks = ans[i].split()[1:]
        d = {}
        for t in toks:
            if t.startswith("G0"):
                d["G0"] = t[2:]
            elif t.startswith("LN"):
                d["LN"] = t[2:]
            else:
                d[t[0]] = t[1:]
        if d.get("P") != "0":
            c.violation("valid parameters k=%d r=%d N1=%d seed=%d rejected (status %s)" % (k, r, n1, s, d.get("P")), "params-rejected", {"request": reqs[i], "c_answer": ans[i][:300]})
            continue
        hs = d["H"].split(":", 1)[1]
        key = (k, r, n1, s)
        canon = strip_col(hs, r - 1) if (role == 2 and d.get("LN") == "1") else hs
        ref = byparam.setdefault(key, (hs if not (role == 2 and d.get("LN") == "1") else None, d["X"], d.get("LN"), i))
        if ref[0] is None and not (role == 2 and d.get("LN") == "1"):
            byparam[key] = ref = (hs, ref[1], ref[2], ref[3])
        if ref[0] is not None:
            want = strip_col(ref[0], r - 1) if (role == 2 and d.get("LN") == "1") else ref[0]
            if canon != want or d["X"] != ref[1] or d.get("LN") != ref[2]:
                c.violation("k=%d r=%d N1=%d seed=%d: matrix / flags of a %s session after %d other session(s) differ from those of request %d" % (
                            k, r, n1, s, "decoder" if role == 2 else "encoder", hist, ref[3]), "pchk-depends-on-history",
                            {"stream": "pchk", "request": reqs[i], "reference_request": reqs[ref[3]], "c_answer": ans[i][:600]})
        if k * n1 <= 6000 and key not in rfc_done:
            rfc_done.add(key)
            want_rfc = rfc5170_matrix(k, r, n1, s)
            got = hs if not (role == 2 and d.get("LN") == "1") else None
            if got is not None and got != want_rfc:
                c.violation("k=%d r=%d N1=%d seed=%d: the session's parity-check matrix is not the one RFC 5170 defines (independent transcription of the RFC's pseudo-code)" % (k, r, n1, s),
                            "pchk-not-rfc5170", {"stream": "pchk", "request": reqs[i], "c_matrix": hs[:3000], "rfc_matrix": want_rfc[:3000]})
            elif got is None:
                rfc_done.discard(key)
        c.dist("role%d" % role); c.dist("after%d" % hist); c.dist("extra%s" % d["X"])
        if k * n1 <= 4000:
            mreq.append("Q %d %d %d %d %s %d" % (k, r, n1, s, d["G0"], 20000)); midx.append((i, d, hs, role))
    try:
        rc, mout, _ = vlib.sh([vlib.ocaml_model()], input="\n".join(mreq) + "\n", timeout=2400)
        ml = mout.splitlines()
        for j, (i, d, hs, role) in enumerate(midx):
            k, r = meta[i][0], meta[i][1]
            mt = ml[j].split() if j < len(ml) else []
            ok = len(mt) == 4
            if ok:
                mh = mt[1].split(":", 1)[1]
                if role == 2 and d.get("LN") == "1":
                    ok = strip_col(mh, r - 1) == strip_col(hs, r - 1)
                else:
                    ok = mh == hs
                ok = ok and mt[2] == "X" + d["X"] and mt[3] == "G" + d["G"]
            if not ok:
                c.proof_failed.append({"correspondence": "pchk", "request": reqs[i], "c": ans[i][:500], "model": (ml[j] if j < len(ml) else "")[:500]})
                break
    except vlib.BuildError as e:
        c.proof_failed.append({"model_build": str(e)[-1500:]})
    c.cov["evaluations"] = len(reqs)
    c.cov["distinct_nontrivial"] = len(byparam)
    c.cov["traces_validated_against_impl"] = len(midx)
    c.cov["rule"] = ("(k, r, N1, seed) grid incl. every shape with k <= 4, r <= 12 (24 in the thorough tier), N1 <= 6, k=1,2, N1=3 and N1=r, rate extremes, seeds 1 and 2^31-2 x {encoder, decoder} x {fresh process state, after 1 or 2 other sessions}; "
                     "distinct = distinct parameter sets; every request builds a matrix (non-trivial)")
    c.cov["samples"] = [reqs[0], reqs[len(reqs) // 2], reqs[-1]]
    c.trusted = vlib.BASE_TRUST + ["Pchk.v: hand-written mirror of of_create_pchck_matrix_rfc5170_compliant over Sparse.v and the generated PRNG; tools/props/C05.py rfc5170_matrix: a second, independent transcription of RFC 5170's pseudo-code (from the RFC's text as I know it; the RFC itself is not available offline) compared with every C matrix"]
