"""C18: dense GF(2) matrix, popcount helpers and the symbol-level linear solver.
Proof: Dense.v/DenseProofs.v (bit-level ops), DenseSolve.v/DenseSolveProofs.v (solver returns THE
solution); correspondence: streams dense / solve (extracted models vs C under ASan); oracles:
independent python bit-matrix model, GF(2) rank + solution check, popcounts."""
import vlib


def gen_dense(rng, big=False):
    nr = rng.rng(1, 8); nc = rng.choice([1, 2, 31, 32, 33, 63, 64, 65, rng.rng(1, 100)])
    ops = []
    r, c = nr, nc
    M = set()

    def junk(r_, c_):
        return ":".join("%d.%d" % (rng.below(r_), rng.below(c_)) for _ in range(rng.below(5))) or "-"
    for _ in range(rng.rng(5, 50)):
        k = rng.below(100); i, j = rng.below(r), rng.below(c)
        if k < 30:
            ops.append("s,%d,%d,%d" % (i, j, rng.below(2)))
        elif k < 40:
            ops.append("g,%d,%d" % (i, j))
        elif k < 52:
            ops.append("f,%d,%d" % (i, j))
        elif k < 55:
            ops.append("c")
        elif k < 62:
            dr, dc = rng.below(3), rng.choice([0, 1, 31, 32, 33, 60])
            ops.append("y,%d,%d,%s" % (dr, dc, junk(r + dr, c + dc))); r, c = r + dr, c + dc
        elif k < 68:
            ops.append("R,%s,%s" % (".".join(str(rng.below(r)) for _ in range(r)), junk(r, c)))
        elif k < 74:
            ops.append("C,%s,%s" % (".".join(str(rng.below(c)) for _ in range(c)), junk(r, c)))
        elif k < 81:
            ops.append("x,%d,%d" % (rng.below(r), rng.below(r)))
        elif k < 84:
            # exchange two row POINTERS, as the solver's pivoting does (m->row[i] <-> m->row[j]): the rows no longer sit in storage order
            # (seed C18h: a copy fast path that memcpy'd the whole bit block)
            ops.append("p,%d,%d" % (rng.below(r), rng.below(r)))
        elif k < 87:
            ops.append("w,%d" % i)
        elif k < 90:
            # weight ignoring the words before nb/32; a row index one past the end now and then (answers UINT32(-1))
            ops.append("I,%d,%d" % (i if rng.chance(7, 8) else r, min(c, rng.choice([0, 1, 31, 32, 33, 64, rng.below(c + 1)]))))
        elif k < 95:
            ops.append("W,%d" % j)
        else:
            ops.append("e,%d" % i)
    return "N %d %d %s" % (nr, nc, " ".join(ops))


def dense_oracle(req, ans):
    w = req.split(); r, c = int(w[1]), int(w[2]); ops = w[3:]
    toks = ans.split()[1:]
    if len(toks) != len(ops):
        return "answer has %d results for %d ops" % (len(toks), len(ops))
    M = [[0] * c for _ in range(r)]

    def parsej(s):
        return [] if s in ("", "-") else [tuple(int(x) for x in p.split(".")) for p in s.split(":")]
    for n, (op, tok) in enumerate(zip(ops, toks)):
        a = op.split(","); res, rows = tok.split("=", 1); want = 0
        if a[0] == "s":
            M[int(a[1])][int(a[2])] = int(a[3])
        elif a[0] == "g":
            want = M[int(a[1])][int(a[2])]
        elif a[0] == "f":
            M[int(a[1])][int(a[2])] ^= 1; want = M[int(a[1])][int(a[2])]
        elif a[0] == "c":
            M = [[0] * c for _ in range(r)]
        elif a[0] == "y":
            r2, c2 = r + int(a[1]), c + int(a[2])
            N = [[0] * c2 for _ in range(r2)]
            for i in range(r):
                for j in range(c):
                    N[i][j] = M[i][j]
            M, r, c = N, r2, c2
        elif a[0] == "R":
            rows_ = [int(x) for x in a[1].split(".")]
            M = [list(M[rows_[i]]) for i in range(r)]
        elif a[0] == "C":
            cols_ = [int(x) for x in a[1].split(".")]
            J = parsej(a[2])
            N = [[0] * c for _ in range(r)]
            for (ji, jj) in J:
                N[ji][jj] = 1                       # copycols does not clear the destination first ...
            for j in range(c):
                for i in range(r):
                    N[i][j] = M[i][cols_[j]]        # ... but overwrites every in-range bit
            M = N
        elif a[0] == "p":
            i1, i2 = int(a[1]), int(a[2])
            M[i1], M[i2] = M[i2], M[i1]
        elif a[0] == "x":
            f, t = int(a[1]), int(a[2])
            M[t] = [x ^ y for x, y in zip(M[t], M[f])]
        elif a[0] == "w":
            want = sum(M[int(a[1])])
        elif a[0] == "I":
            # the bits from the word boundary at or below nb on (the function skips whole 32-bit words only)
            want = 9999 if int(a[1]) >= r else sum(M[int(a[1])][32 * (int(a[2]) // 32):])
        elif a[0] == "W":
            want = sum(M[i][int(a[1])] for i in range(r))
        elif a[0] == "e":
            want = 0 if any(M[int(a[1])]) else 1
        if int(res) != want:
            return "op %d (%s): result %s, bit-matrix model says %d" % (n, op, res, want)
        got = [[int(x, 16) for x in row.split(".")] for row in rows.split(";")]
        nw = (c + 31) // 32
        if len(got) != r or any(len(g) != nw for g in got):
            return "op %d (%s): shape" % (n, op)
        for i in range(r):
            for k in range(nw):
                wv = sum(M[i][32 * k + b] << b for b in range(32) if 32 * k + b < c)
                if got[i][k] != wv:
                    return "op %d (%s): row %d word %d is %x, bit-matrix model says %x (padding bits must stay zero)" % (n, op, i, k, got[i][k], wv)
    return None


def rank_and_solution(A, rhs, q):
    """GF(2) elimination on bit masks with byte-string right-hand sides; returns (rank, solution or None, consistent)"""
    rows = [(sum(b << j for j, b in enumerate(r)), list(x)) for r, x in zip(A, rhs)]
    piv = {}
    for m, v in rows:
        for b, (pm, pv) in piv.items():
            if m >> b & 1:
                m ^= pm; v = [x ^ y for x, y in zip(v, pv)]
        if m:
            b = m.bit_length() - 1
            for b2 in list(piv):
                if piv[b2][0] >> b & 1:
                    piv[b2] = (piv[b2][0] ^ m, [x ^ y for x, y in zip(piv[b2][1], v)])
            piv[b] = (m, v)
        elif any(v):
            return len(piv), None, False
    if len(piv) < q:
        return len(piv), None, True
    return q, [piv[j][1] for j in range(q)], True


def gen_solve(rng):
    q = rng.rng(1, 40 if rng.chance(1, 5) else 9); p = q + rng.choice([0, 0, 1, 2, 5, 40]) if not rng.chance(1, 8) else max(1, q - rng.rng(1, 2))
    L = rng.choice([1, 2, 3, 4, 7, 8, 9, 64])
    x = [[rng.below(256) for _ in range(L)] for _ in range(q)]
    if rng.chance(1, 3):
        # unknowns drawn from the span of two symbols: equations whose non-null unknowns cancel get a NULL right-hand side
        # (seed C18f: back-substitution on a pivot row whose constant term is still NULL but which holds further unknowns)
        s1 = [rng.below(256) for _ in range(L)]; s2 = [rng.below(256) for _ in range(L)]
        span = [[0] * L, s1, s2, [a ^ b for a, b in zip(s1, s2)]]
        x = [list(span[rng.below(4)]) for _ in range(q)]
    kind = rng.below(5)
    A = []
    for i in range(p):
        if kind == 0:
            row = [rng.below(2) for _ in range(q)]
        elif kind == 1:                               # sparse rows
            row = [1 if rng.chance(1, max(2, q // 2)) else 0 for _ in range(q)]
        elif kind == 2:                               # rank q-1 by construction: last column copies the first
            row = [rng.below(2) for _ in range(q)]; row[-1] = row[0] if q > 1 else 0
        elif kind == 3:                               # upper triangular with unit diagonal + duplicates
            row = [1 if (j == i % q) else (rng.below(2) if j > i % q else 0) for j in range(q)]
        else:
            row = [rng.below(2) for _ in range(q)]
            if i and rng.chance(1, 3):
                row = list(A[rng.below(i)])
        A.append(row)
    rhs = []
    for row in A:
        v = [0] * L
        for j, b in enumerate(row):
            if b:
                v = [a ^ c for a, c in zip(v, x[j])]
        rhs.append(v)
    if rng.chance(1, 6):                              # make some right-hand sides zero -> NULL constant terms
        for j in range(q):
            if rng.chance(1, 2):
                x[j] = [0] * L
        rhs = []
        for row in A:
            v = [0] * L
            for j, b in enumerate(row):
                if b:
                    v = [a ^ c for a, c in zip(v, x[j])]
            rhs.append(v)
    line = "L %d %d %d %s %s" % (p, q, L, ";".join("".join(map(str, r)) for r in A),
                                ";".join("N" if not any(v) else "".join("%02x" % b for b in v) for v in rhs))
    return line, A, rhs, q, L


def popcount(x):
    return bin(x).count("1")


def run(c):
    import gen_params as gp_mod
    for pbm in gp_mod.generate_symbol(c.snap)["problems"]:      # bit macros of of_matrix_dense.h, regenerated; Properties_C18.v ties them to testbit / setbit
        c.proof_failed.append({"translator": pbm})
    import gen_funcs
    for p in gen_funcs.gen_popcount(c.snap)["problems"]:
        c.proof_failed.append({"translator": p})
    c.prove(["Properties_C18.v"])
    exe = vlib.build_c(c.snap, "drv_dense", "drv_dense.c")
    n = 300 if c.tier == "quick" else 4000
    dreq = [gen_dense(c.rng) for _ in range(n)]
    sol = [gen_solve(c.rng) for _ in range(n * 2)]
    sreq = [s[0] for s in sol]
    words = [0, 1, 2, 3, 0xF0, 0xFF, 0x100, 0x8000, 0x10000, 0x7FFFFFFF, 0x80000000, 0xFFFFFFFF, 0x55555555, 0xAAAAAAAA, 0x0F0F0F0F, 0x12345678]
    words += [c.rng.below(2 ** 32) for _ in range(3000)] + [1 << b for b in range(32)] + [(1 << b) - 1 for b in range(33)]
    hreq = ["H " + " ".join(map(str, words[i:i + 500])) for i in range(0, len(words), 500)]
    # of_hweight_array on raw word arrays (any content, also in the bits beyond `size`: whole words are counted), array exactly as long as
    # the words the function may read (ASan sees an over-read) or longer
    areq = []
    for _ in range(150 if c.tier == "quick" else 2000):
        size = c.rng.choice([0, 1, 31, 32, 33, 63, 64, 65, 95, 96, 97, 128, c.rng.rng(0, 700)])
        nw = (size + 31) // 32 + (c.rng.below(3) if c.rng.chance(1, 3) else 0)
        ws = [c.rng.choice([0, 0xFFFFFFFF, 1 << c.rng.below(32), c.rng.below(2 ** 32)]) for _ in range(nw)]
        areq.append("A %d %s" % (size, " ".join(map(str, ws))))
    reqs = dreq + sreq + hreq + areq
    ans, crashes = vlib.run_driver(exe, reqs, prefix="R")
    for kx, se in crashes[:6]:
        c.violation("dense/solver operation crashed: %s" % ans[kx][:200], "dense-crash", {"request": reqs[kx][:2000], "stderr": se})
    ml = None
    try:
        rc, mout, _ = vlib.sh([vlib.ocaml_model()], input="\n".join(dreq + sreq) + "\n", timeout=1800)
        ml = mout.splitlines()
    except vlib.BuildError as e:
        c.proof_failed.append({"model_build": str(e)[-1500:]})
    for i, rq in enumerate(dreq):
        if ans[i].startswith(("CRASH", "SKIPPED")):
            continue
        msg = dense_oracle(rq, ans[i])
        if msg:
            c.violation(msg, "dense-bits", {"stream": "dense", "request": rq[:2000], "c_answer": ans[i][:2000]})
        elif ml is not None and (i >= len(ml) or ml[i] != ans[i]):
            c.proof_failed.append({"correspondence": "dense", "request": rq[:1200], "c": ans[i][:1200], "model": (ml[i] if i < len(ml) else "")[:1200]}); ml = None
        for op in rq.split()[3:]:
            c.dist("dense:" + op[0])
    for k, (line, A, rhs, q, L) in enumerate(sol):
        i = len(dreq) + k
        a = ans[i]
        if a.startswith(("CRASH", "SKIPPED")):
            continue
        rank, x, consistent = rank_and_solution(A, rhs, q)
        st = a.split()[1]
        c.dist("solve:full-rank" if rank == q else "solve:rank-deficient")
        if (st == "S0") != (rank == q):
            c.violation("p=%d q=%d: matrix has column rank %d of %d but the solver returned %s" % (len(A), q, rank, q, st), "solver-rank",
                        {"stream": "solve", "request": line[:2000], "c_answer": a[:600]})
            continue
        if st == "S0" and consistent:
            got = a.split()[2].split(";")
            want = ["".join("%02x" % b for b in v) for v in x]
            if got != want:
                c.violation("p=%d q=%d: solver returned %s, the unique solution is %s" % (len(A), q, got[:6], want[:6]), "solver-solution",
                            {"stream": "solve", "request": line[:2000], "c_answer": a[:600]})
                continue
        if ml is not None:
            mi = ml[i] if i < len(ml) else ""
            if mi != a:
                c.proof_failed.append({"correspondence": "solve", "request": line[:1200], "c": a[:600], "model": mi[:600]}); ml = None
    for k, rq in enumerate(hreq):
        a = ans[len(dreq) + len(sreq) + k]
        if a.startswith(("CRASH", "SKIPPED")):
            continue
        ws = [int(x) for x in rq.split()[1:]]
        for w, t in zip(ws, a.split()[1:]):
            v = [int(x) for x in t.split(",")]
            x64 = (w | ((w << 32) ^ (w << 13))) & (2 ** 64 - 1)
            want = [popcount(w), popcount(w), popcount(w), popcount(w & 255), popcount(x64)]
            if v != want:
                c.violation("popcount helpers on %#x: (hweight32, hweight32_table, hweight32_naive, hweight8_table, popcount_3) = %s, expected %s" % (w, v, want),
                            "popcount", {"stream": "pop", "word": w, "got": v, "expected": want})
                break
    try:
        rc, mout, _ = vlib.sh([vlib.ocaml_model()], input="\n".join("U" + r[1:] for r in areq) + "\n", timeout=600)
        aml = mout.splitlines()
    except vlib.BuildError as e:
        aml = None
    for k, rq in enumerate(areq):
        a = ans[len(dreq) + len(sreq) + len(hreq) + k]
        if a.startswith(("CRASH", "SKIPPED")):
            continue
        f = rq.split(); size = int(f[1]); ws = [int(x) for x in f[2:]]
        want = sum(popcount(w) for w in ws[:(size + 31) // 32])
        c.dist("pop:array")
        if a != "R %d" % want:
            c.violation("of_hweight_array on %d bits of %s returned %s, the words hold %d ones" % (size, ws[:6], a, want), "popcount", {"stream": "pop", "request": rq[:600], "c_answer": a})
        elif aml is not None and (k >= len(aml) or aml[k] != a):
            c.proof_failed.append({"correspondence": "pop-array", "request": rq[:600], "c": a, "model": aml[k] if k < len(aml) else ""}); aml = None
    c.cov["evaluations"] = sum(len(r.split()) - 3 for r in dreq) + len(sreq) + len(words) + len(areq)
    c.cov["distinct_nontrivial"] = len(set(reqs))
    c.cov["traces_validated_against_impl"] = len(dreq) + len(sreq)
    c.cov["rule"] = ("dense: op sequences on matrices with column counts around word boundaries (1, 2, 31, 32, 33, 63, 64, 65, random <= 100), every exported op, state (all words incl. padding) "
                     "compared after every op; solve: p x q systems (full rank, rank q-1 by construction, duplicated rows, triangular, p < q, zero right-hand sides -> NULL constant terms), "
                     "symbol lengths 1..9 and 64; popcounts: boundary words, all single bits, all low masks, 3000 random words; of_hweight_array on raw arrays of 0..700 bits (exact-size and longer arrays, dirty bits beyond the size); distinct = distinct request lines")
    c.cov["samples"] = [dreq[0][:200], sreq[0][:200], hreq[0][:80]]
    c.cov["partial"] = "of_hweight_array (the loop over words, 64-bit pairs first: HweightArray.v, proved and compared on raw arrays) and the UINT8-pointer cast of of_hweight32_table are hand-modelled; row/column weights of the dense model are defined over d_get, the C's use of the popcount helpers for them is covered by the correspondence"
    c.trusted = vlib.BASE_TRUST + ["Dense.v / DenseSolve.v hand-written mirrors of the row-oriented build of of_matrix_dense.c and of of_ml_tool.c"]
