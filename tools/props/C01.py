"""C01: decoders never hand back a wrong source symbol."""
import vlib, session_check, sessions


def run(c):
    c.prove(["Properties_C01.v"])
    q = c.tier == "quick"
    session_check.run_sessions(c, (sessions.RS28, sessions.RS2M, sessions.LDPC), {"C01"}, 300 if q else 4000, 700 if q else 10000, big=not q)
    c.trusted = vlib.BASE_TRUST + ["ITModel.v / RSApi.v hand-written mirrors; the RS algebra and the ML finish path are not modelled: their outputs are compared byte by byte with the encoded source on the C side"]
