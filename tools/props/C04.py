"""C04: LDPC-Staircase streaming (IT) decoding = peeling closure.  Proof: ITProofs.v (universal in
matrix, size, history); correspondence: stream `dec` (api 0, no finish) C vs extracted ITModel,
after every prefix; oracle: independent python peeling closure on the matrix dumped from the C."""
import vlib, ldpc


def gen_params(rng, tier):
    ps = []
    grid = [(6, 5, 3), (10, 6, 3), (10, 5, 4), (12, 8, 3), (20, 10, 3), (16, 16, 5), (30, 12, 4), (8, 12, 3),
            (5, 10, 3), (40, 20, 3), (3, 3, 3), (1, 3, 3), (2, 4, 3), (25, 6, 6), (50, 25, 3), (64, 32, 7)]
    if tier == "thorough":
        grid += [(100, 50, 3), (200, 100, 3), (150, 30, 5), (500, 250, 3), (33, 17, 4), (90, 10, 3)]
    for (k, r, n1) in grid:
        for _ in range(2 if tier == "quick" else 6):
            ps.append((k, r, n1, rng.rng(1, 2 ** 31 - 2)))
    for _ in range(20 if tier == "quick" else 200):
        k = rng.rng(1, 40); r = rng.rng(3, 30); n1 = rng.rng(3, min(r, 8))
        ps.append((k, r, n1, rng.rng(1, 2 ** 31 - 2)))
    return ps


def gen_histories(rng, k, r, tier):
    n = k + r
    hs = []
    norders = 4
    for _ in range(3 if tier == "quick" else 8):
        # received set around the peeling threshold
        m = max(1, min(n, k + rng.rng(-3, max(2, r // 2))))
        S = rng.sample(range(n), m)
        for o in range(norders):
            h = list(S)
            if o == 0:
                h.sort()
            elif o == 1:
                h.sort(key=lambda e: (e < k, e))       # repairs first
            else:
                rng.shuffle(h)
            if o == 3:                                  # duplicates
                for _ in range(rng.rng(1, 5)):
                    h.insert(rng.below(len(h) + 1), rng.choice(S))
            hs.append(h)
    hs.append(list(range(k, n)))                         # all repair
    hs.append(list(range(k)))                            # all source
    hs.append(list(range(n - 1, -1, -1)))                # everything, reversed
    return hs


def run(c):
    import gen_params as gp_mod
    for pbm in gp_mod.generate_symbol(c.snap)["problems"]:      # ESI <-> column macros of of_symbol.h, regenerated; Properties_C04.v ties them to col_of
        c.proof_failed.append({"translator": pbm})
    c.prove(["Properties_C04.v"])
    reqs, meta = [], []
    for (k, r, n1, seed) in gen_params(c.rng, c.tier):
        for h in gen_histories(c.rng, k, r, c.tier):
            # callback mode: none, buffer, NULL, alternating (the closure must not depend on who provides the buffers)
            reqs.append("D 3 %d %d 4 %d %d %d 0 %d 0 2 %s" % (k, r, n1, seed, c.rng.below(10 ** 9), c.rng.choice([0, 0, 1, 2, 3]), " ".join(map(str, h))))
            meta.append((k, r, n1, seed, h))
    ans, crashes = ldpc.run_dec(c.snap, reqs)
    for kx, se in crashes[:5]:
        c.violation("decoder session crashed: %s" % ans[kx][:200], "dec-crash", {"stream": "dec", "request": reqs[kx], "stderr": se})
    mreq, midx = [], []
    prefixes = 0
    distinct = set()
    for i, (k, r, n1, seed, h) in enumerate(meta):
        a = ldpc.Ans(ans[i])
        if a.crash:
            continue
        if a.P != 0 or a.Q != 0 or a.H is None:
            c.violation("valid LDPC parameters k=%d r=%d N1=%d seed=%d rejected (status %s/%s)" % (k, r, n1, seed, a.P, a.Q),
                        "params-rejected", {"request": reqs[i], "c_answer": ans[i][:300]})
            continue
        n = k + r
        # premises of the theorem on the matrix the C built
        for row in a.H:
            if len(row) < 2 or len(set(row)) != len(row) or any(not (0 <= x < n) for x in row):
                c.proof_failed.append({"premise": "matrix row violates well-formedness (>=2 entries, no duplicates, in range)",
                                       "request": reqs[i], "row": row})
        base = {r - 1} if a.LN == "1" else set()
        got = set()
        ok = True
        for j, (st, comp, sm, rm) in enumerate(a.steps):
            got.add(ldpc.col_of(k, r, h[j]))
            cl = ldpc.peel_closure(a.H, got | base)
            want = "".join("1" if (s + r) in cl else "0" for s in range(k))
            prefixes += 1
            if sm != want or comp != (1 if want.count("1") == k else 0) or st != 0:
                ok = False
                c.violation("k=%d r=%d N1=%d seed=%d: after ESIs %s available sources %s (complete=%d, status=%d), peeling closure gives %s" %
                            (k, r, n1, seed, h[:j + 1], sm, comp, st, want), "it-closure",
                            {"stream": "dec", "request": reqs[i], "prefix": j + 1, "c_sources": sm, "closure_sources": want})
                break
        if len(a.steps) != len(h):
            ok = False
        distinct.add((k, r, n1, seed, tuple(h)))
        c.dist("complete" if a.steps and a.steps[-1][1] else "incomplete")
        if ok:
            mreq.append("I %d %d 4 %s %s %s %s" % (k, r, "1" if a.LN == "1" else "0", a.Hs, a.Ys, " ".join(map(str, h))))
            midx.append(i)
    try:
        rc, mout, merr = vlib.sh([vlib.ocaml_model()], input="\n".join(mreq) + "\n", timeout=1800)
        ml = mout.splitlines()
        for j, i in enumerate(midx):
            a = ldpc.Ans(ans[i])
            want = " ".join("S%d:%s:%s" % (s[1], s[2], s[3]) for s in a.steps)
            mt = ml[j].split() if j < len(ml) else []
            got = " ".join(x for x in mt if x[0] not in "VD")
            if got != want:
                c.proof_failed.append({"correspondence": "dec/it", "request": reqs[i][:300], "c": want[:400], "model": (got or "")[:400]})
                break
            import session_check
            if not session_check.state_digests_agree(c, a, next((x[1:].split(".") for x in mt if x.startswith("D")), []), reqs[i]):
                break
    except vlib.BuildError as e:
        c.proof_failed.append({"model_build": str(e)[-1500:]})
    # one large code (n above 2^15: seed C04h narrowed the entry coordinates of the sparse matrix to 16 bits): every call is made, the state
    # is reported after the last one only (api 2); the python closure oracle decides (the extracted model is not run at this size)
    for (k, r) in ([(29000, 7000)] if c.tier == "quick" else [(29000, 7000), (43000, 7000), (20000, 16000)]):
        n = k + r
        S = [e for e in range(n) if e >= k or c.rng.below(100) < 93]
        c.rng.shuffle(S)
        big = "D 3 %d %d 1 3 %d %d 2 0 0 2 %s" % (k, r, c.rng.rng(1, 2 ** 31 - 2), c.rng.below(10 ** 9), " ".join(map(str, S)))
        bans, bcr = ldpc.run_dec(c.snap, [big], timeout=1800)
        a = ldpc.Ans(bans[0])
        if a.crash or a.P != 0 or a.Q != 0 or a.H is None or not a.steps:
            c.violation("large LDPC session k=%d r=%d crashed or was rejected: %s" % (k, r, bans[0][:200]), "dec-crash", {"stream": "dec", "request": big[:300]})
        else:
            cl = ldpc.peel_closure(a.H, {ldpc.col_of(k, r, e) for e in S} | ({r - 1} if a.LN == "1" else set()))
            want = "".join("1" if (s_ + r) in cl else "0" for s_ in range(k))
            st, comp, sm, rm = a.steps[-1]
            prefixes += 1
            if sm != want or comp != (1 if want.count("1") == k else 0) or st != 0:
                c.violation("k=%d r=%d N1=3: after %d calls %d sources are available (complete=%d, status=%d), the peeling closure holds %d" %
                            (k, r, len(S), sm.count("1"), comp, st, want.count("1")), "it-closure", {"stream": "dec", "request": big[:300] + " ...", "n": n})
    c.cov["evaluations"] = prefixes
    c.cov["distinct_nontrivial"] = len(distinct)
    c.cov["traces_validated_against_impl"] = len(midx)
    c.cov["rule"] = ("history = (k, r, N1, seed) x sequence of ESIs submitted with of_decode_with_new_symbol; received sets around the peeling threshold, "
                     ">= 4 orders per set (sorted, repairs first, random, random with duplicates), all-repair, all-source, everything reversed; "
                     "checked after every prefix; distinct = distinct (parameters, sequence); all are non-trivial (at least one call)")
    c.cov["samples"] = [reqs[0][:200], reqs[len(reqs) // 2][:200], reqs[-1][:200]]
    c.trusted = vlib.BASE_TRUST + [
        "ITModel.v is hand-written after of_it_decoding.c (rows as lists of matrix columns; UINT16 counters as nat: they never underflow on these paths); tied by the per-prefix comparison",
        "the parity-check matrix is read from the C session (encoder instance) for both the model run and the python closure oracle; that the decoder instance uses the same matrix is C05's subject"]
