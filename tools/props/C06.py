"""C06: encoders emit the canonical codeword.  Proof: LdpcEnc.v (LDPC zero-sum, frame, uniqueness);
oracles on the C: RS repair symbols = product by the canonical systematic Vandermonde generator
(independent python GF arithmetic), codec 1 = codec 2 (m=8) byte for byte, LDPC parity equations sum
to zero, sources unchanged, NULL slots allocated, dirty/recycled output buffers, repeated builds."""
import vlib


def gf_tables(m, poly):
    exp, log = [0] * (2 * ((1 << m) - 1) + 2), [0] * (1 << m)
    x = 1
    for i in range((1 << m) - 1):
        exp[i] = x; log[x] = i
        x <<= 1
        if x >> m:
            x ^= poly
    for i in range((1 << m) - 1, len(exp)):
        exp[i] = exp[i - ((1 << m) - 1)]
    return exp, log


class GF:
    def __init__(self, m):
        self.m = m; self.q = 1 << m
        self.exp, self.log = gf_tables(m, 0x13 if m == 4 else 0x11d)

    def mul(self, a, b):
        return 0 if a == 0 or b == 0 else self.exp[self.log[a] + self.log[b]]

    def inv(self, a):
        return self.exp[(self.q - 1 - self.log[a]) % (self.q - 1)]

    def pw(self, a, e):
        if e == 0:
            return 1
        if a == 0:
            return 0
        return self.exp[(self.log[a] * e) % (self.q - 1)]


def canonical_generator(F, k, n):
    """rows k..n-1 of G = V_n * V_k^-1, V[i][j] = p_i^j with p_0 = 0, p_i = alpha^(i-1)"""
    pts = [0] + [F.exp[i] for i in range(n - 1)]
    V = [[F.pw(pts[i], j) for j in range(k)] for i in range(n)]
    # invert V_k by Gauss-Jordan
    A = [list(V[i]) + [1 if i == j else 0 for j in range(k)] for i in range(k)]
    for c in range(k):
        p = next(r for r in range(c, k) if A[r][c])
        A[c], A[p] = A[p], A[c]
        iv = F.inv(A[c][c])
        A[c] = [F.mul(iv, x) for x in A[c]]
        for r in range(k):
            if r != c and A[r][c]:
                f = A[r][c]
                A[r] = [x ^ F.mul(f, y) for x, y in zip(A[r], A[c])]
    Vinv = [row[k:] for row in A]
    G = []
    for i in range(k, n):
        G.append([0] * k)
        for j in range(k):
            acc = 0
            for t in range(k):
                acc ^= F.mul(V[i][t], Vinv[t][j])
            G[-1][j] = acc
    return G


def rs_expected(F, G, src, L):
    out = []
    for row in G:
        v = [0] * L
        for c, s in zip(row, src):
            if c:
                for j in range(L):
                    if F.m == 8:
                        v[j] ^= F.mul(c, s[j])
                    else:
                        v[j] ^= (F.mul(c, s[j] >> 4) << 4) | F.mul(c, s[j] & 15)
        out.append(v)
    return out


def encmat_correspondence(c):
    """the generator matrix each C codec builds (of_rs_new / of_rs_2m_build_encoding_matrix: Vandermonde rows, of_invert_vdm, matmul)
    against the canonical generator of the extracted model (RSEnc.rs_repairs on the identity payload: repair j, byte i = G[j][i])"""
    rng = c.rng
    q = c.tier == "quick"
    shapes = [(2, 4, k, n) for n in range(2, 16) for k in range(1, n)]
    if q:
        shapes = rng.sample(shapes, 40)
    s8 = [(1, 2), (1, 255), (2, 4), (3, 6), (9, 20), (22, 30), (40, 60), (100, 130), (254, 255), (128, 255)] + [(k, min(255, k + rng.rng(1, 40))) for k in (rng.rng(1, 150) for _ in range(6 if q else 60))]
    for (k, n) in s8:
        shapes += [(1, 8, k, n), (2, 8, k, n)]
    reqs = ["A %d %d %d %d" % s for s in shapes]
    exe = vlib.build_c(c.snap, "drv_encmat", "drv_encmat.c", exclude=("of_reed-solomon_gf_2_8.c",))
    ans, crashes = vlib.run_driver(exe, reqs, prefix="R")
    for kx, se in crashes[:4]:
        c.violation("generator construction crashed: %s" % reqs[kx], "encmat-crash", {"stream": "encmat", "request": reqs[kx], "stderr": se})
    mreq = []
    for (codec, m, k, n) in shapes:
        ident = ".".join("".join("01" if b == i else "00" for b in range(k)) for i in range(k))
        mreq.append("G %d %d %d %d %s" % (m, k, n, k, ident))
    try:
        rc, mout, _ = vlib.sh([vlib.ocaml_model()], input="\n".join(mreq) + "\n", timeout=3000)
        ml = mout.splitlines()
    except vlib.BuildError as e:
        c.proof_failed.append({"model_build": str(e)[-1500:]}); return 0
    try:
        rc, bout, _ = vlib.sh([vlib.ocaml_model()], input="".join(("Y %d %d %d\n" % (m, k, n)) if (not q or k * n <= 6000) else "Y 8 1 1\n" for (codec, m, k, n) in shapes), timeout=3000)
        bl = bout.splitlines()
    except vlib.BuildError as e:
        c.proof_failed.append({"model_build": str(e)[-1500:]}); bl = []
    n_ok = 0
    for i, (codec, m, k, n) in enumerate(shapes):
        a = ans[i]
        if (not q or k * n <= 6000) and not a.startswith(("CRASH", "SKIPPED")) and i < len(bl) and bl[i].split()[1:2] != a.split()[1:2] and a.split()[1:2] != ["NONE"]:
            # the model of the C's own construction (InvertVdm.build_enc, proved equal to the canonical generator) vs the C
            c.proof_failed.append({"correspondence": "encmat/construction-model", "request": reqs[i], "c": a[:600], "model": bl[i][:600]})
        if a.startswith(("CRASH", "SKIPPED")):
            continue
        got = a.split()[1] if len(a.split()) > 1 else ""
        rows = [got[2 * k * j:2 * k * (j + 1)] for j in range(n)]
        want = ["".join("01" if b == j else "00" for b in range(k)) for j in range(k)]
        mo = ml[i][2:].strip() if i < len(ml) else ""
        want += (mo.split(".") if mo and mo != "-" else [])
        if got == "NONE" or rows != want:
            bad = next((j for j in range(min(len(rows), len(want))) if rows[j] != want[j]), 0)
            c.violation("codec %d m=%d k=%d n=%d: row %d of the generator matrix the library builds is %s, the canonical systematic generator has %s" % (
                        codec, m, k, n, bad, rows[bad] if bad < len(rows) else got[:40], want[bad] if bad < len(want) else "?"), "rs-generator-not-canonical",
                        {"stream": "encmat", "request": reqs[i], "row": bad})
        else:
            n_ok += 1
    c.cov["generator_matrices_agreeing"] = n_ok
    return n_ok


def encdec_sessions(c):
    """OF_ENCODER_AND_DECODER sessions that first build repair symbols (which must be the codeword's) and then decode the block"""
    import session_check, sessions
    reqs = sessions.gen_requests(c.rng, 40 if c.tier == "quick" else 400, codecs=(sessions.RS28, sessions.RS2M, sessions.LDPC))
    for q in reqs:
        q.role = 4
    session_check.run_sessions(c, (), {"C06"}, 0, 0, extra_reqs=reqs)


def run(c):
    c.prove(["Properties_C06.v"])
    encdec_sessions(c)
    rng = c.rng
    reqs, meta = [], []
    F4, F8 = GF(4), GF(8)
    q = c.tier == "quick"
    shapes4 = [(k, n) for n in range(2, 16) for k in range(1, n)]
    shapes8 = [(1, 2), (1, 255), (2, 5), (3, 7), (10, 20), (16, 24), (50, 75), (100, 150), (200, 255), (254, 255), (127, 255)] + \
              [(rng.rng(1, 120), 0) for _ in range(10 if q else 80)]
    shapes8 = [(k, n if n else rng.rng(k + 1, min(255, k + 60))) for (k, n) in shapes8]
    for (k, n) in (shapes4 if not q else rng.sample(shapes4, 45)):
        for mode in (rng.below(32), 2):
            L = rng.choice([1, 2, 3, 7, 15, 16, 17, 33])
            reqs.append("E 2 %d %d %d 4 0 %d %d" % (k, n - k, L, rng.below(10 ** 9), mode)); meta.append((2, 4, k, n, L, mode))
    for (k, n) in shapes8:
        L = rng.choice([1, 2, 3, 7, 15, 16, 17, 33, 64])
        seed = rng.below(10 ** 9)
        chg = rng.choice([0, 16])          # the same for both codecs of a pair: their codewords are compared with each other
        for codec in (1, 2):
            mode = rng.below(16) + chg
            reqs.append("E %d %d %d %d 8 0 %d %d" % (codec, k, n - k, L, seed, mode)); meta.append((codec, 8, k, n, L, mode))
    for _ in range(60 if q else 600):
        k = rng.rng(1, 40); r = rng.rng(3, 30); n1 = rng.rng(3, min(r, 7)); L = rng.choice([1, 3, 4, 8, 9, 17])
        mode = rng.below(8)
        reqs.append("E 3 %d %d %d %d %d %d %d" % (k, r, L, n1, rng.rng(1, 2 ** 31 - 2), rng.below(10 ** 9), mode)); meta.append((3, 0, k, k + r, L, mode))
    # symbol lengths at and above 2^16 (accepted: the length is a UINT32; seed C06g kept it in a UINT16 local)
    for L in ([65536, 65537, 70001] if q else [65535, 65536, 65537, 70001, 131073]):
        mode = rng.below(8)
        reqs.append("E 3 %d %d %d %d %d %d %d" % (3, 3, L, 3, rng.rng(1, 2 ** 31 - 2), rng.below(10 ** 9), mode)); meta.append((3, 0, 3, 6, L, mode))
        seed = rng.below(10 ** 9)
        for codec, m in ((1, 8), (2, 8), (2, 4)):
            reqs.append("E %d 2 2 %d %d 0 %d %d" % (codec, L, m, seed, rng.below(16))); meta.append((codec, m, 2, 4, L, int(reqs[-1].split()[-1])))
    exe = vlib.build_c(c.snap, "drv_enc", "drv_enc.c")
    ans, crashes = vlib.run_driver(exe, reqs, prefix="R")
    for kx, se in crashes[:6]:
        c.violation("encoding crashed (%s): %s" % (reqs[kx], ans[kx][:160]), "enc-crash", {"stream": "enc", "request": reqs[kx], "stderr": se})
    bykey = {}
    gens = {}
    rs_model = []
    for i, (codec, m, k, n, L, mode) in enumerate(meta):
        a = ans[i]
        if a.startswith(("CRASH", "SKIPPED")):
            continue
        d = {}
        for t in a.split()[1:]:
            for pre in ("SL", "RO", "P", "H", "B", "Y"):
                if t.startswith(pre):
                    d[pre] = t[len(pre):]; break
        c.dist("codec%d" % codec); c.dist("mode%d" % mode)
        if d.get("P") != "0":
            c.violation("valid parameters rejected: %s" % reqs[i], "params-rejected", {"request": reqs[i]}); continue
        if set(d["B"]) != {"0"}:
            c.violation("of_build_repair_symbol returned %s for %s" % (d["B"], reqs[i]), "build-status", {"request": reqs[i], "c_answer": a[:300]})
        if d["RO"] != "1":
            c.violation("encoding modified a source symbol: %s" % reqs[i], "enc-source-written", {"request": reqs[i]})
        if "N" in d["SL"]:
            c.violation("a NULL output slot was not replaced by a library-allocated symbol: %s (slots %s)" % (reqs[i], d["SL"]), "enc-null-slot", {"request": reqs[i]})
        Y = d["Y"].split(".")
        if "NULL" in Y:
            continue
        sym = [[int(y[2 * j:2 * j + 2], 16) for j in range(L)] for y in Y]
        if codec in (1, 2):
            F = F4 if m == 4 else F8
            key = (m, k, n)
            if key not in gens:
                gens[key] = canonical_generator(F, k, n)
            want = rs_expected(F, gens[key], sym[:k], L)
            if L > 5000:
                # too long for the extracted model (quadratic in the length): the python canonical generator decides alone here
                if [list(v) for v in want] != sym[k:]:
                    c.violation("codec %d m=%d k=%d n=%d L=%d mode=%d: repair symbols differ from the canonical generator's" % (codec, m, k, n, L, mode), "rs-not-canonical",
                                {"stream": "enc", "request": reqs[i]})
                continue
            rs_model.append((i, "G %d %d %d %d %s" % (m, k, n, L, ".".join(Y[:k])), ".".join(Y[k:]), ".".join("".join("%02x" % b for b in v) for v in want)))
        else:
            r = n - k
            H = [[int(x) for x in row.split(",")] for row in d["H"].split(":", 1)[1].split("/")]
            for ri, row in enumerate(H):
                acc = [0] * L
                for col in row:
                    esi = col + k if col < r else col - r
                    acc = [x ^ y for x, y in zip(acc, sym[esi])]
                if any(acc):
                    c.violation("LDPC k=%d r=%d mode=%d: parity equation %d does not sum to zero" % (k, r, mode, ri), "ldpc-not-zero-sum",
                                {"stream": "enc", "request": reqs[i], "row": ri}); break
            # premise of the theorem: staircase shape
            for ri, row in enumerate(H):
                if ri not in row or len(set(row)) != len(row) or any((x != ri and x < r and x > ri) for x in row):
                    c.proof_failed.append({"premise": "matrix row %d is not staircase-shaped" % ri, "request": reqs[i]}); break
    # ---- Reed-Solomon: the extracted Coq model (RSEnc.rs_repairs = product by the canonical generator of RSCanon.v,
    # proved systematic, MDS and the unique Vandermonde-derived generator) decides; the python oracle cross-checks the model
    try:
        mexe = vlib.ocaml_model()
        rc, mout, _ = vlib.sh([mexe], input="\n".join(x[1] for x in rs_model) + "\n", timeout=3000)
        ml = mout.splitlines()
        for j, (i, line, c_rep, py_rep) in enumerate(rs_model):
            mo = ml[j][2:].strip() if j < len(ml) else "?"
            codec, m, k, n, L, mode = meta[i]
            if mo != py_rep:
                c.proof_failed.append({"oracle_disagreement": "extracted model vs python canonical generator", "request": line[:300], "model": mo[:300], "python": py_rep[:300]})
                break
            if c_rep != mo:
                cr, mr = c_rep.split("."), mo.split(".")
                bad = next((x for x in range(min(len(cr), len(mr))) if cr[x] != mr[x]), 0)
                c.violation("codec %d m=%d k=%d n=%d mode=%d: repair ESI %d is %s, the canonical generator gives %s" % (
                            codec, m, k, n, mode, k + bad, cr[bad] if bad < len(cr) else "?", mr[bad] if bad < len(mr) else "?"), "rs-not-canonical",
                            {"stream": "enc", "request": reqs[i], "esi": k + bad, "model_request": line[:2000]})
        c.cov["traces_validated_against_impl"] = len(rs_model)
    except vlib.BuildError as e:
        c.proof_failed.append({"model_build": str(e)[-1500:]})
    # byte compatibility codec 1 vs codec 2 (m=8): same seed, same k, n, L
    pairs = {}
    for i, (codec, m, k, n, L, mode) in enumerate(meta):
        if m == 8 and not ans[i].startswith(("CRASH", "SKIPPED")):
            key = (k, n, L, reqs[i].split()[7])
            y = [t for t in ans[i].split() if t.startswith("Y")]
            pairs.setdefault(key, {})[codec] = y[0] if y else None
    for key, v in pairs.items():
        if 1 in v and 2 in v and v[1] and v[2] and "NULL" not in v[1] + v[2] and v[1] != v[2]:
            c.violation("codec 1 and codec 2 (m=8) disagree for k=%d n=%d L=%d" % key[:3], "rs-byte-compat", {"key": list(key)})
    n_em = encmat_correspondence(c)
    c.cov["evaluations"] = len(reqs) + n_em
    c.cov["distinct_nontrivial"] = len(set(reqs))
    c.cov["rule"] = ("encoder sessions: RS GF(2^4) (k, n) shapes (all 105 in thorough), RS GF(2^8) boundary and random shapes on both codecs with equal payloads, LDPC random parameters; "
                     "modes: NULL output slots, dirty caller buffers, every symbol built twice, decreasing ESI order; symbol lengths around the unroll boundaries; every request non-trivial")
    c.cov["samples"] = [reqs[0], reqs[len(reqs) // 2], reqs[-1]]
    c.cov["partial"] = "the C encoders' own generator construction (invert_vdm / matmul) is not modelled: the C output is compared with the proved canonical model on every request"
    c.trusted = vlib.BASE_TRUST + ["RSEnc.v/RSCanon.v hand-written spec of the canonical code, extracted (ExtrOcamlBasic) and run on the C encoder's inputs; tools/props/C06.py canonical_generator (Gauss-Jordan inversion of the Vandermonde matrix) cross-checks the model"]
