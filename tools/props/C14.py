"""C14: GF tables = field arithmetic.  Proof: sweeps over the tables re-read from /repo
(translator) + model of the run-time generator; correspondence: dumped C tables = model tables
(evaluated inside Coq).  On a broken obligation an independent python GF implementation
locates the entry."""
import vlib, gen_tables


def gfmul(a, b, m, p):
    r = 0
    for _ in range(m):
        if b & 1:
            r ^= a
        b >>= 1
        a <<= 1
        if a >> m & 1:
            a ^= p
    return r


def find_bad_entries(t1, t2):
    """Property oracle evaluated directly on the implementation's tables."""
    bad = []
    for pre, m, p in (("gf24", 4, 0x13), ("gf28", 8, 0x11d), ("rs28", 8, 0x11d)):
        q = 1 << m
        exp = [1]
        for i in range(2 * q):
            exp.append(gfmul(exp[-1], 2, m, p))
        mul = t2.get(pre + "_mul")
        if mul is None or len(mul) != q or any(len(r) != q for r in mul):
            bad.append((pre + "_mul", "shape", None, None))
        else:
            for a in range(q):
                for b in range(q):
                    if mul[a][b] != gfmul(a, b, m, p):
                        bad.append((pre + "_mul", [a, b], gfmul(a, b, m, p), mul[a][b]))
        e = t1[pre + "_exp"]
        want_len = {"gf24": 16, "gf28": 256, "rs28": 510}[pre]
        if len(e) != want_len:
            bad.append((pre + "_exp", "length", want_len, len(e)))
        for i, v in enumerate(e):
            if v != exp[i]:
                bad.append((pre + "_exp", [i], exp[i], v))
        lg = t1[pre + "_log"]
        if len(lg) == 0 or len(lg) % q:
            bad.append((pre + "_log", "length", "multiple of %d" % q, len(lg)))
        for i, v in enumerate(lg):
            a = i % q
            if a == 0:
                if v != q - 1:
                    bad.append((pre + "_log", [i], q - 1, v))
            elif not (0 <= v < q - 1 and exp[v] == a):
                bad.append((pre + "_log", [i], "dlog(%d)" % a, v))
        inv = t1[pre + "_inv"]
        if len(inv) != q:
            bad.append((pre + "_inv", "length", q, len(inv)))
        for a, v in enumerate(inv[:q]):
            if (a == 0 and v != 0) or (a and not (0 <= v < q and gfmul(a, v, m, p) == 1)):
                bad.append((pre + "_inv", [a], "inverse", v))
    om = t2["gf24_optmul"]
    if len(om) != 16 or any(len(r) != 256 for r in om):
        bad.append(("gf24_optmul", "shape", None, None))
    else:
        for c in range(16):
            for x in range(256):
                w = (gfmul(c, x >> 4, 4, 0x13) << 4) | gfmul(c, x & 15, 4, 0x13)
                if om[c][x] != w:
                    bad.append(("gf24_optmul", [c, x], w, om[c][x]))
    return bad


def run(c):
    g = gen_tables.generate(c.snap)
    for p in g["problems"]:
        c.proof_failed.append({"translator": p})
    c.prove(["Properties_C14.v"])
    # independent evaluation of the property on the C's own tables (all entries: exhaustive)
    t1 = dict(g["t1"]); t2 = dict(g["t2"])
    bad = find_bad_entries(t1, t2)
    n = sum(len(v) for v in t1.values()) + sum(len(r) for v in t2.values() for r in v)
    c.cov["evaluations"] = n
    c.cov["distinct_nontrivial"] = n
    c.cov["exhaustive"] = True
    c.cov["rule"] = ("every entry of every table (3 table sets) re-read from /repo: proved equal to GF(2)[x]/(p) arithmetic by "
                     "vm_compute sweeps in Coq; the same entries re-checked by an independent python implementation; "
                     "every entry is distinct and non-trivial (each is one product/log/exp/inverse)")
    c.cov["traces_validated_against_impl"] = len(g["rs28"]["rs28_exp"]) + 512 + 65536
    c.cov["samples"] = [{"table": "gf28_mul", "index": [87, 131], "value": t2["gf28_mul"][87][131]},
                        {"table": "gf28_log", "length": len(t1["gf28_log"])},
                        {"table": "rs28_mul (dumped after of_rs_init)", "index": [2, 128], "value": t2["rs28_mul"][2][128]}]
    for (tab, idx, want, got) in bad[:50]:
        c.violation("table %s entry %s is %s, field arithmetic gives %s" % (tab, idx, got, want),
                    "table-entry:%s" % tab, {"table": tab, "index": idx, "expected": want, "got": got})
    c.trusted = vlib.BASE_TRUST[:3] + ["harness/dump_tables.c (prints the arrays; the compiler is the parser), cross-checked against a textual parse",
                                      "GF2Poly.v: the 15-line shift-and-add definition of GF(2)[x]/(p) multiplication is the specification"]
