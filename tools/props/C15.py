"""C15: the 'last repair symbol is null' claim.  Proof: LastNull.v (any matrix with even source
columns + staircase, any symbol group); the hypotheses are evaluated on the matrix of every session
whose claim is true; oracle on C: claim true => built last repair symbol all zero; encoder and decoder agree."""
import vlib, ldpc, sessions


def run(c):
    import gen_params as gp_mod
    for pbm in gp_mod.generate_claim(c.snap)["problems"]:      # the IS_LAST_SYMBOL_NULL case, regenerated; Properties_C15.v ties it to last_symbol_null_claim
        c.proof_failed.append({"translator": pbm})
    c.prove(["Properties_C15.v"])
    rng = c.rng
    reqs = []
    for _ in range(500 if c.tier == "quick" else 6000):
        n1 = rng.choice([4, 4, 6, 8, 3, 5])
        k = rng.rng(1, 40)
        # rates on both sides of the extra-entry threshold (rows with < 2 source entries appear when k*N1 < 2r)
        r = rng.choice([rng.rng(n1, max(n1, k * n1 // 2 + 3)), rng.rng(n1, n1 + 6), n1 + 1, min(60, k * n1)])
        r = max(r, n1)
        reqs.append(sessions.Req(sessions.LDPC, k, r, rng.choice([1, 4, 9]), n1, rng.rng(1, 2 ** 31 - 2), 0, 0, 0, 2, [], pseed=rng.below(10 ** 9)))
    # configurations outside the advertised limits (N1 above n-k): rejected by a correct library and then skipped below; if the library
    # configures such a session, the claim it makes is checked like any other
    for n1 in (4, 6, 8, 5):
        for r in range(1, n1):
            for k in (1, 2, 5, 12):
                reqs.append(sessions.Req(sessions.LDPC, k, r, 4, n1, rng.rng(1, 2 ** 31 - 2), 0, 0, 0, 2, [], pseed=rng.below(10 ** 9)))
    ans, crashes = ldpc.run_dec(c.snap, [q.line() for q in reqs])
    for kx, se in crashes[:5]:
        c.violation("session crashed: %s" % ans[kx][:200], "session-crash", {"request": reqs[kx].line(), "stderr": se})
    ntrue = 0
    distinct = set()
    for q, al in zip(reqs, ans):
        a = ldpc.Ans(al)
        if a.crash or a.P != 0 or a.Q != 0:
            continue
        k, r, n = q.k, q.r, q.k + q.r
        distinct.add((k, r, q.p1, q.p2))
        if a.LN == "x":
            c.violation("k=%d r=%d N1=%d seed=%d: encoder and decoder sessions disagree on IS_LAST_SYMBOL_NULL" % (k, r, q.p1, q.p2),
                        "lastnull-disagree", {"request": q.line()})
            continue
        c.dist("claim" + str(a.LN)); c.dist("N1=%d" % q.p1)
        if a.LN != "1":
            continue
        ntrue += 1
        last = a.Y[n - 1]
        if set(last) != {"0"}:
            c.violation("k=%d r=%d N1=%d seed=%d: claim is true but the last repair symbol built by the encoder is %s" % (k, r, q.p1, q.p2, last),
                        "lastnull-false-claim", {"request": q.line(), "last_repair": last})
        # hypotheses of the theorem on this matrix
        cnt = [0] * n
        for row in a.H:
            for x in row:
                cnt[x] += 1
        hyp = all(cnt[x] % 2 == 0 for x in range(r, n)) and all(cnt[x] == 2 for x in range(r - 1)) and cnt[r - 1] == 1 \
            and all(len(set(row)) == len(row) for row in a.H)
        if not hyp:
            c.proof_failed.append({"premise": "claim true but the matrix does not satisfy the theorem's hypotheses (even source columns, staircase)",
                                   "request": q.line(), "column_weights": cnt})
    # the claim of a session queried while OTHER sessions, configured later, are alive (seed C15i kept the extra-entries flag in a module
    # variable): stream pchk with `post` sessions of the opposite kind; a true claim needs every source column of the session's own matrix even
    preqs = []
    for _ in range(80 if c.tier == "quick" else 800):
        n1 = rng.choice([4, 4, 6, 8])
        k = rng.rng(1, 30)
        r = rng.choice([rng.rng(n1, n1 + 4), rng.rng(n1, max(n1, k * n1 // 2 + 3)), min(60, k * n1 + 5)])
        oth = ["%d:%d:%d:%d" % (60, 20, n1, rng.rng(1, 2 ** 31 - 2)), "%d:%d:%d:%d" % (3, 40, n1, rng.rng(1, 2 ** 31 - 2))]   # one without, one with extra entries
        rng.shuffle(oth)                                                                                                       # either may be the last one configured
        other = ",".join(oth)
        preqs.append("Q %d %d %d %d %d - %s" % (k, max(r, n1), n1, rng.rng(1, 2 ** 31 - 2), rng.choice([1, 2]), other))
    pexe = vlib.build_c(c.snap, "drv_pchk", "drv_pchk.c")
    pans, pcr = vlib.run_driver(pexe, preqs, prefix="R")
    for rq, an in zip(preqs, pans):
        if an.startswith(("CRASH", "SKIPPED")):
            c.violation("matrix construction crashed: %s" % an[:200], "session-crash", {"stream": "pchk", "request": rq}); continue
        d = {}
        for t in an.split()[1:]:
            d["LN" if t.startswith("LN") else t[0]] = t[2:] if t.startswith("LN") else t[1:]
        if d.get("P") != "0" or "H" not in d:
            continue
        rr, nn = [int(x) for x in d["H"].split(":")[0].split(",")]
        rows = [[int(x) for x in row.split(",")] for row in d["H"].split(":", 1)[1].split("/")]
        w = [0] * nn
        for row in rows:
            for x in row:
                w[x] += 1
        if d.get("LN") == "1" and any(w[x] % 2 for x in range(rr, nn)):
            c.violation("a session claims its last repair symbol is null while other sessions are alive, but a source column of its matrix has odd weight "
                        "(the claim is false for some blocks): %s" % rq, "lastnull-false-claim", {"stream": "pchk", "request": rq, "column_weights": w})
        ntrue += 1 if d.get("LN") == "1" else 0
    c.cov["evaluations"] = len(reqs) + len(preqs)
    c.cov["distinct_nontrivial"] = len(distinct)
    c.cov["traces_validated_against_impl"] = ntrue
    c.cov["rule"] = ("LDPC sessions with even N1 in {4,6,8} (and odd N1 as control) at rates on both sides of the extra-entry threshold, random payloads and seeds; "
                     "non-trivial = parameters accepted; claims that are true: see traces_validated_against_impl")
    c.cov["samples"] = [reqs[0].line(), reqs[1].line()]
    c.trusted = vlib.BASE_TRUST + ["that 'no extra entry' implies 'every source column has exactly N1 entries' for the C construction is checked on every dumped matrix, not proved"]
