"""C13: symbol kernels.  Proof: Kernels.v/KernelProofs.v/KernelGF.v (universal in size and operand
count); correspondence: stream `kern` (extracted model vs C under ASan, exact-size heap blocks,
all 8 alignments) + bytewise oracle in python."""
import vlib, gen_tables

FN_NAMES = {1: "of_add_to_symbol", 2: "of_add_from_multiple_symbols", 3: "of_add_to_multiple_symbols",
            4: "of_addmul1", 5: "of_galois_field_2_8_addmul1", 6: "of_galois_field_2_4_addmul1",
            7: "of_galois_field_2_4_addmul1_compact"}


def gfmul(a, b, m, p):
    r = 0
    for _ in range(m):
        if b & 1:
            r ^= a
        b >>= 1
        a <<= 1
        if a >> m & 1:
            a ^= p
    return r


def expected(fn, size, c, bufs):
    """bytewise definition -> (results, untouched operands)"""
    def xor_into(d, srcs):
        d = list(d)
        for i in range(size):
            for s in srcs:
                d[i] ^= s[i]
        return d
    if fn == 1:
        return [xor_into(bufs[0], [bufs[1]])], bufs[1:]
    if fn == 2:
        return [xor_into(bufs[0], bufs[1:])], bufs[1:]
    if fn == 3:
        return [xor_into(t, [bufs[0]]) for t in bufs[1:]], [bufs[0]]
    d = list(bufs[0]); s = bufs[1]
    for i in range(size):
        if fn in (4, 5):
            d[i] ^= gfmul(c, s[i], 8, 0x11d)
        elif fn == 6:
            d[i] ^= gfmul(c, s[i], 4, 0x13)
        else:
            d[i] ^= (gfmul(c, s[i] >> 4, 4, 0x13) << 4) | gfmul(c, s[i] & 15, 4, 0x13)
    return [d], [s]


def hx(b):
    return "".join("%02x" % x for x in b) if b else "-"


def gen_cases(rng, tier):
    cases = []
    sizes = list(range(0, 71)) + [95, 96, 97, 127, 128, 129, 255, 256, 257, 1023, 1024, 1500]
    if tier == "thorough":
        sizes += list(range(71, 200)) + [2047, 2048, 2049, 4095, 4096, 4097]      # the extracted model is quadratic in the size: larger sizes only add time
    def content(n, hi):
        # operand contents: random bytes, or (one operand in three) runs of zero / all-ones bytes of 1..24 bytes at any offset
        # (seed C13h: a kernel that skipped all-zero source words lost its place; random bytes never contain one)
        b = [rng.below(hi) for _ in range(n)]
        if n and rng.chance(1, 3):
            for _ in range(rng.rng(1, 4)):
                start = rng.below(n); ln = rng.choice([1, 4, 7, 8, 8, 9, 16, 24]); v = rng.choice([0, 0, 0, hi - 1])
                if rng.chance(1, 2):
                    start -= start % 8
                for j in range(start, min(n, start + ln)):
                    b[j] = v
        return b

    def mk(fn, size, nops, c):
        if fn in (1, 4, 5, 6, 7):
            nops = 1
        hi = 16 if fn == 6 else 256
        extra = rng.below(4)
        if fn == 3:
            src = content(size, 256)          # exact size: any over-read is an ASan error
            bufs = [src] + [content(size + rng.below(4), 256) for _ in range(nops)]
        else:
            dst = content(size + extra, hi)
            bufs = [dst] + [content(size, hi) for _ in range(nops)]
        al = "".join(str(rng.below(8)) for _ in bufs)
        return (fn, size, c, al, bufs)
    for fn in (1, 2, 3, 4, 5, 6, 7):
        for size in sizes:
            reps = 2 if tier == "quick" else 6
            if size > 1100:
                reps = 1                                  # the extracted list model is quadratic in the size
            for _ in range(reps):
                nops = rng.choice([0, 1, 2, 3, 4, 5, 6, 7, 8, 9, 10, 11, 12, 13, 15, 16, 17, 20]) if fn in (2, 3) else 1
                if size > 1100:
                    nops = min(nops, 2)
                c = rng.below(16 if fn in (6, 7) else 256)
                cases.append(mk(fn, size, nops, c))
    # every operand count 0..20 at sizes that exercise each branch (8k, 8k+4, 8k+4+r)
    for fn in (2, 3):
        for nops in range(0, 21):
            for size in (0, 1, 3, 4, 7, 8, 9, 12, 13, 16, 23, 64, 67):
                cases.append(mk(fn, size, nops, 0))
    # every constant of the fields
    for c in range(256):
        cases.append(mk(4, 33, 1, c)); cases.append(mk(5, 31, 1, c))
    for c in range(16):
        for size in (0, 1, 15, 16, 17, 31, 32, 33, 47, 48):
            cases.append(mk(6, size, 1, c)); cases.append(mk(7, size, 1, c))
    return cases


def alias_cases(rng, n):
    """of_add_to_multiple_symbols with the SAME destination listed more than once (list semantics: one XOR per list entry, so a buffer listed
    twice ends up unchanged).  Not in the byte-list model (its targets are values, not buffers): decided on the C by the sequential definition.
    (seed C13i: a group of four destinations loaded first and stored afterwards)"""
    out = []
    for _ in range(n):
        size = rng.choice([8, 9, 15, 16, 17, 24, 31, 33, 64])
        nt = rng.rng(2, 12)
        src = [rng.below(256) for _ in range(size)]
        real = []          # distinct target buffers
        toks = []          # per list entry: index into real
        for t in range(nt):
            if real and rng.chance(1, 3):
                toks.append(rng.below(len(real)))
            else:
                real.append([rng.below(256) for _ in range(size)]); toks.append(len(real) - 1)
        out.append((size, src, real, toks))
    return out


def run(c):
    g = gen_tables.generate(c.snap)
    c.prove(["Properties_C13.v"])
    cases = gen_cases(c.rng, c.tier)
    # ---- aliased destinations
    ali = alias_cases(c.rng, 150 if c.tier == "quick" else 1500)
    alines = []
    for size, src, real, toks in ali:
        first = {}
        parts = [hx(src)]
        for pos, t in enumerate(toks):
            if t in first:
                parts.append("=%d" % first[t])
            else:
                first[t] = pos + 1
                parts.append(hx(real[t]))
        alines.append("K 3 %d 0 %s %s" % (size, "0" * (len(toks) + 1), " ".join(parts)))
    aexe = vlib.build_c(c.snap, "drv_kernasan", "drv_kern.c", flags=None, exclude=("of_reed-solomon_gf_2_8.c",))
    acl, acr = vlib.run_driver(aexe, alines)
    for i, (size, src, real, toks) in enumerate(ali):
        cur = [list(b) for b in real]
        for t in toks:
            for j in range(size):
                cur[t][j] ^= src[j]
        want = " ".join(hx(cur[t]) for t in toks) + " | " + hx(src)
        if acl[i] != want:
            c.violation("of_add_to_multiple_symbols size=%d with a destination listed more than once (entries %s): result differs from one XOR per list entry" %
                        (size, toks), "kern", {"stream": "kern", "request": alines[i][:600], "c_answer": acl[i][:600], "expected": want[:600]})
    c.cov["aliased_destination_cases"] = len(ali)
    lines = ["K %d %d %d %s %s" % (fn, size, cc, al, " ".join(hx(b) for b in bufs)) for fn, size, cc, al, bufs in cases]
    req = "\n".join(lines) + "\n"
    builds = [("asan", None)]
    if c.tier == "thorough":
        builds.append(("O3", ["-O3"]))
    couts = {}
    for name, flags in builds:
        exe = vlib.build_c(c.snap, "drv_kern" + name, "drv_kern.c", flags=flags, exclude=("of_reed-solomon_gf_2_8.c",))
        cl, crashes = vlib.run_driver(exe, lines)
        for k, se in crashes[:10]:
            c.violation("kernel %s size=%d operands=%d alignments=%s crashed (%s build): %s" % (
                        FN_NAMES[cases[k][0]], cases[k][1], len(cases[k][4]) - 1, cases[k][3], name, cl[k][:200]),
                        "kern-crash", {"stream": "kern", "request": lines[k], "stderr": se, "build": name})
        couts[name] = cl
    ml = None
    try:
        rc2, mout, merr = vlib.sh([vlib.ocaml_model()], input=req, timeout=1800)
        ml = mout.splitlines()
    except vlib.BuildError as e:
        c.proof_failed.append({"model_build": str(e)[-1500:]})
    distinct = set()
    for i, (fn, size, cc, al, bufs) in enumerate(cases):
        res, ops = expected(fn, size, cc, bufs)
        want = " ".join(hx(b) for b in res) + " |" + "".join(" " + hx(b) for b in ops)
        ok = True
        for name, cl in couts.items():
            if cl[i] != want and not cl[i].startswith(("CRASH", "SKIPPED")):
                ok = False
                c.violation("%s size=%d operands=%d c=%d alignments=%s (%s build): result differs from the bytewise definition" %
                            (FN_NAMES[fn], size, len(bufs) - 1, cc, al, name), "kern",
                            {"stream": "kern", "request": lines[i], "c_answer": cl[i], "expected": want})
        if ok and ml is not None and (i >= len(ml) or ml[i] != want):
            c.proof_failed.append({"correspondence": "kern", "request": lines[i][:400], "model": ml[i][:400] if i < len(ml) else None, "c": want[:400]})
            ml = None
        distinct.add((fn, size, len(bufs), al))
        c.dist(FN_NAMES[fn])
    c.cov["evaluations"] = len(cases) * len(builds)
    c.cov["distinct_nontrivial"] = len(distinct)
    c.cov["traces_validated_against_impl"] = len(cases)
    c.cov["rule"] = ("one kernel call per case: function x size (0..70 every value, then boundary sizes) x operand count 0..20 x "
                     "per-buffer alignment offset 0..7 x constant (all 256 / all 16) x random contents; each buffer ends exactly at the end of its heap block; "
                     "distinct = distinct (function, size, buffer count, alignments); every case is non-trivial except size 0 / 0 operands, which are kept on purpose")
    c.cov["samples"] = [lines[0][:200], lines[len(lines) // 2][:200], lines[-1][:200]]
    c.trusted = vlib.BASE_TRUST + [
        "Kernels.v models a word operation as the same operation on the bytes it covers (XOR is bytewise whatever the endianness; little-endian packing puts look-up i on byte i); LP64 little-endian non-SSE code path only",
        "alignment: byte-list memory has no alignment; the C is run at all 8 alignments under ASan with UBSan's alignment check disabled (the library dereferences unaligned UINT64*/UINT32* by design)"]
