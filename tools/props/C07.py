"""C07: memory safety and read-only treatment of application buffers (bounds / frame / ledger theorems + sanitizer runs with checksums)."""
import vlib, session_check, sessions

LEVEL = "proof"


def run(c):
    c.prove(["Properties_C07.v"])      # the model-level part of the contract (see the file header); the run-time part follows
    q = c.tier == "quick"
    session_check.run_sessions(c, (sessions.RS28, sessions.RS2M, sessions.LDPC), {"C07"}, 500 if q else 6000, 700 if q else 10000, big=True)
    c.cov["explanation"] = ("every life cycle runs under ASan/UBSan with every application buffer (symbols of exactly L bytes, pointer tables of exactly n resp. k entries) "
                            "in its own exact-size heap block, and all buffers handed to the library are compared before/after; a crash or a changed buffer is the violation")
    c.trusted = ["Coq kernel (Properties_C07.v: closed under the global context)", "hand-written models tied by the session / kernel / ledger correspondences", "gcc 12 ASan/UBSan runtime (alignment check disabled: the library dereferences unaligned words by design)", "harness/drv_dec.c, tools/sessions.py"]
