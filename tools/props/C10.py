"""C10: statuses and queries tell the truth.  Proofs: RS API model (finish status, completion iff k
distinct), IT model (completion query = all sources known, never reverts); correspondence: RS API
model and IT model vs C; oracle: statuses / flags / masks / pointer identity on every session."""
import vlib, session_check, sessions


def run(c):
    c.prove(["Properties_C10.v"])
    q = c.tier == "quick"
    session_check.run_sessions(c, (sessions.RS28, sessions.RS2M, sessions.LDPC), {"C10"}, 250 if q else 3000, 700 if q else 8000, big=not q)
    c.cov["partial"] = ("LDPC of_finish_decoding status and pointer identity are decided by the C-side oracle and (for RS) the API-model correspondence only: "
                        "there is no Coq model of the ML finish path yet")
    c.trusted = vlib.BASE_TRUST + ["RSApi.v / ITModel.v hand-written mirrors; hypothesis core_ok (C02a) in the RS theorems"]
