"""C16: 2D-parity codec."""
import vlib, session_check, sessions

LEVEL = "exploration"


def product_check(c, reqs, ans):
    import ldpc
    seen = set()
    for q, al in zip(reqs, ans):
        a = ldpc.Ans(al)
        if a.crash or a.H is None or (q.k, q.r) in seen:
            continue
        seen.add((q.k, q.r))
        k, r = q.k, q.r
        # product structure: identity on the repair part, every source in exactly one row check and one column check
        ok = True
        for i, row in enumerate(a.H):
            if [x for x in row if x < r] != [i]:
                ok = False
        cnt = {s: [i for i, row in enumerate(a.H) if s + r in row] for s in range(k)}
        if any(len(v) != 2 for v in cnt.values()):
            ok = False
        # d row checks of l consecutive sources, l column checks with stride l
        found = False
        for d in range(1, k + 1):
            if k % d == 0 and d + k // d == r:
                l = k // d
                for (dd, ll) in ((d, l),):
                    rowsets = sorted(tuple(sorted(x - r for x in row if x >= r)) for row in a.H)
                    want = sorted([tuple(range(i * ll, i * ll + ll)) for i in range(dd)] + [tuple(range(j, k, ll)) for j in range(ll)])
                    if rowsets == want:
                        found = True
        if not (ok and found):
            c.violation("k=%d r=%d: parity-check matrix is not the product single-parity matrix: %s" % (k, r, a.H), "2d-structure",
                        {"request": q.line(), "matrix": a.H})
    return len(seen)


def run(c):
    qk = c.tier == "quick"
    reqs, ans = session_check.run_sessions(c, (sessions.P2D,), {"C16", "C10", "C11", "C07", "C08", "C06"}, 400 if qk else 5000, 1500 if qk else 30000)
    c.cov["shapes_checked"] = product_check(c, reqs, ans)
    c.trusted = vlib.BASE_TRUST + ["the codec-5 specific code (matrix construction, API glue) is not modelled in Coq: structure, soundness, completeness and leak-freedom are decided on the C"]
