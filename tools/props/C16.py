"""C16: 2D-parity codec."""
import vlib, session_check, sessions



def product_check(c, reqs, ans):
    import ldpc
    seen = set()
    for q, al in zip(reqs, ans):
        a = ldpc.Ans(al)
        if a.crash or a.H is None or (q.k, q.r) in seen:
            continue
        seen.add((q.k, q.r))
        k, r = q.k, q.r
        # product structure: identity on the repair part, every source in exactly one row check and one column check
        ok = True
        for i, row in enumerate(a.H):
            if [x for x in row if x < r] != [i]:
                ok = False
        cnt = {s: [i for i, row in enumerate(a.H) if s + r in row] for s in range(k)}
        if any(len(v) != 2 for v in cnt.values()):
            ok = False
        # d row checks of l consecutive sources, l column checks with stride l
        found = False
        for d in range(1, k + 1):
            if k % d == 0 and d + k // d == r:
                l = k // d
                for (dd, ll) in ((d, l),):
                    rowsets = sorted(tuple(sorted(x - r for x in row if x >= r)) for row in a.H)
                    want = sorted([tuple(range(i * ll, i * ll + ll)) for i in range(dd)] + [tuple(range(j, k, ll)) for j in range(ll)])
                    if rowsets == want:
                        found = True
        if not (ok and found):
            c.violation("k=%d r=%d: parity-check matrix is not the product single-parity matrix: %s" % (k, r, a.H), "2d-structure",
                        {"request": q.line(), "matrix": a.H})
    return len(seen)


def matrix_correspondence(c):
    """every (k, n-k) of the property's domain (k <= 16, n <= 24; a margin beyond it as well): the C accepts it iff the
    model's parameter search (Pchk2D.create2d) does, and then builds the same matrix"""
    import ldpc
    pairs = [(k, r) for k in range(1, 19) for r in range(1, 13) if k + r <= 26]
    reqs = [sessions.Req(sessions.P2D, k, r, 4, 0, 0, 0, 0, 0, 2, [], pseed=1) for (k, r) in pairs]
    lines = [q.line() for q in reqs]
    ans, crashes = ldpc.run_dec(c.snap, lines)
    for kx, se in crashes[:4]:
        c.violation("session crashed (%s): %s" % (reqs[kx].desc(), ans[kx][:160]), "session-crash", {"stream": "dec", "request": lines[kx], "stderr": se})
    try:
        rc, mout, _ = vlib.sh([vlib.ocaml_model()], input="".join("T %d %d\n" % (r, k + r) for (k, r) in pairs), timeout=600)
    except vlib.BuildError as e:
        c.proof_failed.append({"model_build": str(e)[-1500:]}); return 0
    ml = mout.splitlines()
    n_ok = 0
    for j, ((k, r), al) in enumerate(zip(pairs, ans)):
        a = ldpc.Ans(al)
        if a.crash:
            continue
        in_domain = k <= 16 and k + r <= 24
        mo = ml[j] if j < len(ml) else "?"
        c_acc = a.P == 0 and a.Q == 0
        m_acc = mo != "R NONE"
        c.dist("accepted" if c_acc else "rejected")
        if c_acc and a.H is not None:
            # search for a failing input first: an accepted pair whose matrix is not the product matrix
            product_check(c, [reqs[j]], [al])
        if not in_domain:
            if c_acc:
                c.proof_failed.append({"correspondence": "p2d/limits", "request": lines[j], "c": "accepted beyond k <= 16, n <= 24"})
            continue
        want = None
        if m_acc:
            want = mo.split(" H", 1)[1].split(":", 1)[1]
        if c_acc != m_acc or (c_acc and a.Hs != want):
            c.proof_failed.append({"correspondence": "p2d/matrix", "request": lines[j], "c": ("accepted H=" + (a.Hs or "")) if c_acc else "rejected (P=%s Q=%s)" % (a.P, a.Q),
                                   "model": mo[:400]})
        else:
            n_ok += 1
    return n_ok


def run(c):
    import gen_params as gp_mod
    for pbm in gp_mod.generate(c.snap)["problems"]:      # limit tests of of_2d_parity_set_fec_parameters, regenerated
        c.proof_failed.append({"translator": pbm})
    c.prove(["Properties_C16.v"])
    qk = c.tier == "quick"
    reqs, ans = session_check.run_sessions(c, (sessions.P2D,), {"C16", "C10", "C11", "C07", "C08", "C06"}, 400 if qk else 5000, 1500 if qk else 30000)
    c.cov["shapes_checked"] = product_check(c, reqs, ans)
    c.cov["matrix_pairs_agreeing_with_model"] = matrix_correspondence(c)
    c.trusted = vlib.BASE_TRUST + ["Pchk2D.v hand-written mirror of the 2D matrix construction (compared with the C for every pair of the domain); the codec-5 API glue (pointer cast to the generic control block) is not modelled: sessions run on the C; ML completeness and leak-freedom are decided on the C (GF(2) oracle, allocation count) and by the IT/ML model correspondence"]
