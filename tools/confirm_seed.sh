#!/bin/bash
# [SEED_SRC=/tmp/mut_out2 SEED_SUFFIX=b] confirm_seed.sh <id> <scratch worktree> : confirms a seeded change (patch applies, 265 tests pass with it,
# demo fails with it and passes without) and files it under /verif/seeded/<id>/
id=$1; wt=$2; src=${SEED_SRC:-/tmp/mut_out}/$id; out=/verif/seeded/$id${SEED_SUFFIX:-}
set -u
cd $wt && git checkout -q -- . && git clean -qfd -e _build >/dev/null 2>&1
git apply --check $src/patch.diff || { echo "$id: patch does not apply"; exit 1; }
[ -d $wt/_build ] || cmake -S $wt -B $wt/_build -G Ninja -DCMAKE_BUILD_TYPE=Release >/dev/null 2>&1
cmake --build $wt/_build >/dev/null 2>&1   # generates of_build_config.h, clean build
bash $src/run_demo.sh $wt > /tmp/seed_$id.clean 2>&1; rc_clean=$?
git apply $src/patch.diff
cmake --build $wt/_build >/dev/null 2>&1
ct=$(ctest --test-dir $wt/_build -j8 --timeout 900 2>&1 | grep 'tests passed' )
bash $src/run_demo.sh $wt > /tmp/seed_$id.mut 2>&1; rc_mut=$?
git checkout -q -- .
cmake --build $wt/_build >/dev/null 2>&1
echo "$id: ctest_with_change='$ct' demo_clean_rc=$rc_clean demo_mut_rc=$rc_mut"
if echo "$ct" | grep -q '100% tests passed, 0 tests failed out of 265' && [ $rc_clean -eq 0 ] && [ $rc_mut -ne 0 ]; then
  mkdir -p $out && cp $src/patch.diff $src/demo.c $src/run_demo.sh $src/notes.md $out/
  echo "$id: CONFIRMED"
else
  echo "$id: NOT CONFIRMED"; tail -5 /tmp/seed_$id.clean; tail -5 /tmp/seed_$id.mut
fi
