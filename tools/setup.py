#!/usr/bin/env python3
import os, sys
sys.path.insert(0, os.path.dirname(os.path.abspath(__file__)))
import vlib, gen_all

s = vlib.Snapshot()
try:
    gen_all.generate_all(s)
    files = vlib.coq_files()
    ok, log, res = vlib.coq_make([f[:-2] + ".vo" for f in files], timeout=7000)
    print(log[-3000:])
    if not ok:
        print("setup: Coq build had failures (checks will report them)")
    try:
        print("ocaml model:", vlib.ocaml_model())
    except Exception as e:
        print("setup: ocaml model not built:", str(e)[-2000:])
finally:
    s.cleanup()
