#!/usr/bin/env python3
"""Writes baseline.sha: the hash of /repo's tracked sources (as the checks snapshot them) the committed evidence was produced on.
Run after every fix: commit in /repo. The checks only use it to decide how much to explore (check: rounds)."""
import os, sys
sys.path.insert(0, os.path.dirname(os.path.abspath(__file__)))
import vlib
s = vlib.Snapshot()
with open(os.path.join(vlib.VERIF, "baseline.sha"), "w") as f:
    f.write(s.tracked_hash + "  /repo %s\n" % os.popen("git -C /repo log --format=%h -1").read().strip())
print(s.tracked_hash)
s.cleanup()
