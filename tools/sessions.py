"""Session-level streams (`dec`): request generation for every codec and the property oracles
evaluated on the implementation's answers (C01, C02, C03, C07, C08, C10, C11, C16)."""
import ldpc

RS28, RS2M, LDPC, P2D = 1, 2, 3, 5


class Req:
    def __init__(self, codec, k, r, L, p1, p2, api, cb, finish, role, esis, pseed=1):
        self.codec, self.k, self.r, self.L, self.p1, self.p2 = codec, k, r, L, p1, p2
        self.api, self.cb, self.finish, self.role, self.esis, self.pseed = api, cb, finish, role, list(esis), pseed

    def line(self):
        return "D %d %d %d %d %d %d %d %d %d %d %d %s" % (self.codec, self.k, self.r, self.L, self.p1, self.p2, self.pseed,
                                                         self.api, self.cb, self.finish, self.role, " ".join(map(str, self.esis)))

    def desc(self):
        return "codec=%d k=%d r=%d L=%d p=(%d,%d) api=%d cb=%d finish=%d role=%d esis=%s" % (
            self.codec, self.k, self.r, self.L, self.p1, self.p2, self.api, self.cb, self.finish, self.role, self.esis[:40])


def p2d_shapes():
    """(k, r) accepted by the 2D codec: k = d*l, r = d + l as found by its search loop, k <= 16, n <= 24"""
    out = []
    for d in range(1, 9):
        for l in range(1, 17):
            k, r = d * l, d + l
            if k <= 16 and k + r <= 24 and r < k + r and r < k + r:
                out.append((k, r))
    return sorted(set(out))


def rand_esis(rng, k, n, around, dup=True):
    m = max(0, min(n, around))
    S = rng.sample(range(n), m)
    h = list(S)
    mode = rng.below(5)
    if mode == 0:
        h.sort()
    elif mode == 1:
        h.sort(key=lambda e: (e < k, e))
    elif mode == 4:
        h.sort(reverse=True)
    if dup and h and rng.chance(1, 3):
        for _ in range(rng.rng(1, 4)):
            h.insert(rng.below(len(h) + 1), rng.choice(S))
    return h


def gen_requests(rng, n_per_codec, codecs=(RS28, RS2M, LDPC), big=False):
    reqs = []
    for codec in codecs:
        for _ in range(n_per_codec):
            if codec == RS28:
                k = rng.rng(1, 40 if not big else 200); r = rng.rng(1, min(30, 255 - k)); p1 = p2 = 0
                if rng.chance(1, 60):      # the corners of the accepted domain
                    k, r = rng.choice([(254, 1), (1, 254), (128, 127), (253, 2), (2, 253)])
                L = rng.choice([1, 2, 3, 4, 7, 8, 15, 16, 17, 31, 33]) if rng.chance(1, 2) else rng.rng(1, 70)   # every residue of the 16/32-byte unrolled kernels
            elif codec == RS2M:
                m = rng.choice([4, 8]); p1, p2 = m, rng.choice([0, 0, 4, 8])     # p2: field size set beforehand through of_set_control_parameter (the parameters decide)
                if m == 4:
                    k = rng.rng(1, 14); r = rng.rng(1, 15 - k)
                else:
                    k = rng.rng(1, 40 if not big else 200); r = rng.rng(1, min(30, 255 - k))
                    if rng.chance(1, 60):
                        k, r = rng.choice([(254, 1), (1, 254), (128, 127), (253, 2), (2, 253)])
                if m == 4 and rng.chance(1, 20):
                    k, r = rng.choice([(14, 1), (1, 14), (7, 8), (13, 2)])
                L = rng.choice([1, 2, 3, 4, 7, 8, 15, 16, 17, 31, 33]) if rng.chance(1, 2) else rng.rng(1, 70)   # every residue of the 16/32-byte unrolled kernels
            elif codec == LDPC:
                k = rng.rng(1, 30 if not big else 300); r = rng.rng(3, 20 if not big else 150)
                p1 = rng.rng(3, min(r, 7)) if not rng.chance(1, 6) else rng.rng(3, min(r, 14)); p2 = rng.rng(1, 2 ** 31 - 2)     # N1 above 7 one time in six
                if rng.chance(1, 4):       # boundary seeds of the PRNG
                    p2 = rng.choice([1, 2, 16807, 2 ** 31 - 3, 2 ** 31 - 2, 1407677000])
                L = rng.choice([1, 3, 4, 8, 9])
            else:
                k, r = rng.choice(p2d_shapes()); p1 = p2 = 0
                L = rng.choice([1, 4, 5, 8])
            if codec != P2D and rng.chance(1, 150):
                # symbol lengths at and above 2^16 (a UINT32 in the API; seed C06g kept one in a UINT16): tiny codes, the answer line carries every symbol in hex
                L = 65536 + rng.below(10)
                if codec == LDPC:
                    k = rng.rng(1, 4); r = rng.rng(3, 5); p1 = 3
                elif codec == RS2M and p1 == 4:
                    k = rng.rng(1, 4); r = rng.rng(1, 4)
                else:
                    k = rng.rng(1, 4); r = rng.rng(1, 4)
            n = k + r
            # loss counts centred on the decodability threshold
            around = k + rng.choice([-3, -2, -1, -1, 0, 0, 0, 1, 1, 2, 3, r])
            if codec in (LDPC, P2D):
                around = k + rng.choice([-2, -1, 0, 0, 1, 1, 2, 3, 4, r // 2, r])
            esis = rand_esis(rng, k, n, around)
            api = rng.below(2)
            if rng.chance(1, 6):
                # the table API called twice with cumulative tables, or a table followed by single submissions.  NOT generated: single
                # submissions followed by a table (api 4 of the driver) - the API documentation excludes it ("This function should not be
                # used when the application uses of_decode_with_new_symbol()"), and on the RS codecs a table installed after the decoding
                # has completed replaces the decoded entries
                api = rng.choice([3, 5])
            if api in (1, 3, 4, 5):
                esis = sorted(set(esis)) if api == 1 else list(dict.fromkeys(esis))
            reqs.append(Req(codec, k, r, L, p1, p2, api, rng.below(4), rng.choice([0, 1, 1]), rng.choice([2, 2, 2, 3, 4, 5] if codec in (RS28, RS2M) else [2, 2, 2, 3, 4]),
                            esis, pseed=rng.below(10 ** 9)))
    return reqs


def oracles(q, a):
    """Evaluate the session properties on one answer. Returns list of (property id, class, message)."""
    out = []
    k, r, n = q.k, q.r, q.k + q.r
    if a.crash:
        out.append(("C07", "session-crash", "session crashed: " + a.raw[:300]))
        return out
    if a.P != 0 or a.Q != 0:
        out.append(("C09", "valid-params-rejected", "valid parameters rejected (P=%s Q=%s)" % (a.P, a.Q)))
        return out
    if a.E and any(ch in "Dd" for ch in a.E):
        out.append(("C10", "duplicate-buffer-kept", "the source table holds the buffer of a later duplicate submission instead of the pointer supplied first (%s)" % a.E))
    if getattr(a, "PS", None) == 0 and q.api != 3:
        # (two cumulative tables on the RS codecs legitimately replace the entries: the second table is the application's own)
        out.append(("C10", "pointer-unstable", "an entry of the source table changed the pointer it reports between two calls of of_get_source_symbols_tab"))
    if getattr(a, "GI", None) == 0:
        out.append(("C10", "table-not-empty", "of_get_source_symbols_tab reported a source symbol before any symbol was submitted"))
    if getattr(a, "ED", None) == 0:
        out.append(("C06", "encdec-build", "an OF_ENCODER_AND_DECODER session built repair symbols that are not the codeword's (or refused to build)"))
    if any(ch != "0" for ch in a.B):
        out.append(("C06", "build-status", "of_build_repair_symbol statuses %s" % a.B))
    recv = []            # distinct ESIs submitted so far
    src_first_unknown = set()   # sources submitted while still unavailable
    prev_complete = 0
    prev_mask = "0" * k
    # what each reported call submitted: ("one", esi) or ("table", [esis]) - api 0: one call per ESI; 1: one table; 3: two cumulative tables;
    # 4: the first half one by one, then a table with everything; 5: a table with the first half, then the rest one by one; 2: like 0, reported once
    h = len(q.esis) // 2
    if q.api == 0:
        plan = [("one", e) for e in q.esis]
    elif q.api == 3:
        plan = [("table", q.esis[:h]), ("table", q.esis)]
    elif q.api == 4:
        plan = [("one", e) for e in q.esis[:h]] + [("table", q.esis)]
    elif q.api == 5:
        plan = [("table", q.esis[:h])] + [("one", e) for e in q.esis[h:]]
    else:
        plan = [("table", q.esis)]
    for j, (st, comp, sm, rm) in enumerate(a.steps):
        kind, what = plan[j] if j < len(plan) else ("table", q.esis)
        if kind == "one":
            e = what
            if e < k and prev_mask[e] == "0":
                src_first_unknown.add(e)
            if e not in recv:
                recv.append(e)
        else:
            # LDPC/2D walk the table in increasing ESI order and decode on the way: once repair symbols are known (any earlier call), a
            # source of the table may be rebuilt before the walk reaches it - which ones cannot be told from outside
            if not (j >= 1 and q.codec in (LDPC, P2D)):
                for e in what:
                    if e < k and prev_mask[e] == "0":
                        src_first_unknown.add(e)
            recv = sorted(set(recv) | set(what)) if q.codec in (LDPC, P2D) else sorted(set(what))
        if st != 0:
            out.append(("C10", "submit-status", "submission call %d returned status %d" % (j, st)))
        if "!" in sm:
            out.append(("C10", "table-stale", "of_get_source_symbols_tab returned OK after call %d but left entries of the caller's table unwritten (%s)" % (j, sm)))
        allsrc = sm.count("1") == k
        if q.codec in (LDPC, P2D) or comp:
            if comp != (1 if allsrc else 0):
                out.append(("C10", "complete-flag", "after call %d complete=%d but source mask %s" % (j, comp, sm)))
        if prev_complete and not comp:
            out.append(("C10", "complete-reverted", "completion flag reverted to false at call %d" % j))
        if q.codec in (RS28, RS2M) and q.api == 0:
            want = 1 if len(recv) >= k else 0
            if comp != want:
                out.append(("C02", "rs-trigger", "RS: %d distinct symbols of k=%d submitted, complete=%d" % (len(recv), k, comp)))
        prev_complete = comp
        if q.codec in (LDPC, P2D):
            prev_mask = "".join("1" if (x == "1" or y == "1") else "0" for x, y in zip(prev_mask, sm))
        elif comp:
            prev_mask = sm
    final_comp = prev_complete
    if a.F is not None:
        st, comp, sm, rm = a.F
        if st not in (0, 1) or (st == 0) != (comp == 1):
            out.append(("C10", "finish-status", "of_finish_decoding returned %d with complete=%d afterwards" % (st, comp)))
        if prev_complete and not comp:
            out.append(("C10", "complete-reverted", "completion flag reverted to false at finish"))
        if comp != (1 if sm.count("1") == k else 0):
            out.append(("C10", "complete-flag", "after finish complete=%d but source mask %s" % (comp, sm)))
        final_comp = comp
        if q.codec in (RS28, RS2M):
            want = 1 if len(set(recv)) >= k else 0
            if comp != want:
                out.append(("C02", "rs-finish", "RS: %d distinct symbols of k=%d, after finish complete=%d" % (len(set(recv)), k, comp)))
            if not want and st != 1:
                out.append(("C02", "rs-finish-status", "RS: fewer than k symbols but finish returned %d" % st))
        elif a.H is not None and n <= 4000:
            known = {ldpc.col_of(k, r, e) for e in recv}
            if a.LN == "1":
                known.add(r - 1)
            det = ldpc.gf2_determined(a.H, n, known, set(range(r, n)))
            want = 1 if len(det) == k else 0
            if comp != want:
                out.append(("C03" if q.codec == LDPC else "C16", "ml-complete",
                            "received %s: sources %s by the parity equations, but after finish complete=%d" % (
                                sorted(recv), "uniquely determined" if want else "not determined", comp)))
    # ---- final table
    if a.E is not None:
        E = a.E
        if "!" in E:
            out.append(("C10", "table-stale", "of_get_source_symbols_tab returned OK but left entries of the caller's table unwritten (%s): a reused table would show stale pointers" % E))
        for i, ch in enumerate(E):
            if ch == "!":
                continue
            if ch != "." and ch.islower():
                out.append(("C01" if q.codec != P2D else "C16", "wrong-symbol", "source symbol %d is available but differs from the encoded one" % i))
            if ch in "Xx":
                out.append(("C10", "pointer-identity", "source table entry %d is the buffer of another received symbol" % i))
        if final_comp and "." in E:
            out.append(("C01" if q.codec != P2D else "C16", "complete-missing", "decoding reported complete but source table is %s" % E))
        if q.codec != P2D:
            for e in src_first_unknown:
                if e < len(E) and E[e] not in "Rr":
                    # only meaningful when the table is readable (RS: after completion)
                    if not (q.codec in (RS28, RS2M) and not final_comp):
                        out.append(("C10", "pointer-identity", "source %d was submitted while unknown but the table holds another buffer (%s)" % (e, E[e])))
        # ---- callbacks
        decoded = [i for i, ch in enumerate(E) if ch in "CcLl"]
        ev = [x for x in a.CB if x.startswith("s")]
        ev_esis = [int(x[1:].split(":")[0]) for x in ev]
        if q.cb == 0:
            if a.CB:
                out.append(("C11", "cb-unregistered", "callbacks invoked although none registered"))
            if any(ch in "Cc" for ch in E):
                out.append(("C11", "cb-buffer", "table holds a callback buffer without callback"))
        else:
            if q.api == 1:
                # table API: every symbol of the table is received by the one call, so no callback may name one of them
                both = sorted(set(ev_esis) & set(q.esis))
                if both:
                    out.append(("C11", "cb-for-received", "callback invoked for source symbol(s) %s although they were in the submitted table" % both))
            if sorted(ev_esis) != sorted(decoded):
                out.append(("C11", "cb-multiset", "callback ESIs %s, decoded (not received) sources %s" % (sorted(ev_esis), sorted(decoded))))
            for x in ev:
                if int(x.split(":")[1]) != q.L:
                    out.append(("C11", "cb-size", "callback size %s, symbol length %d" % (x, q.L)))
            # which call returned a buffer: mode 1 always, 2 never, 3 odd calls (1st, 3rd, ...) counting repair callbacks too
            calls = a.CB
            for idx, x in enumerate(calls):
                if not x.startswith("s"):
                    continue
                esi = int(x[1:].split(":")[0])
                gave = q.cb == 1 or (q.cb == 3 and (idx + 1) % 2 == 1)
                if esi < len(E) and ev_esis.count(esi) == 1 and E[esi] != ".":
                    if gave and E[esi] not in "Cc":
                        out.append(("C11", "cb-buffer", "callback returned a buffer for source %d but the table holds %s" % (esi, E[esi])))
                    if not gave and E[esi] not in "Ll":
                        out.append(("C11", "cb-buffer", "callback returned NULL for source %d but the table holds %s" % (esi, E[esi])))
    if a.RO != 1:
        out.append(("C07", "app-buffer-written", "a buffer owned by the application was modified"))
    if a.LK is not None and a.LK != 0:
        out.append(("C08" if q.codec != P2D else "C16", "leak", "%d heap block(s) still live after release (application freed what it owns)" % a.LK))
    return out
