"""Common body of the session-level checks (C01, C02, C03, C07, C08, C10, C11, C16): run generated
encode/lose/decode life cycles on the compiled library (harness/drv_dec.c, ASan + allocation
accounting), evaluate the property oracles of tools/sessions.py on the answers, and compare with the
extracted Coq models where they exist (RS API model: every RS session; IT model: LDPC sessions fed
with of_decode_with_new_symbol and no finish)."""
import itertools
import vlib, ldpc, sessions


def exhaustive_small(codec, rng, limit):
    """all received subsets for small codes, both APIs"""
    out = []
    if codec in (sessions.RS28, sessions.RS2M):
        shapes = [(1, 1), (1, 3), (2, 2), (3, 2), (2, 4), (4, 3), (3, 5)]
        for (k, r) in shapes:
            n = k + r
            for mask in range(1 << n):
                S = [e for e in range(n) if mask >> e & 1]
                for api in (0, 1):
                    p1 = 0 if codec == sessions.RS28 else rng.choice([4, 8])
                    order = list(S)
                    rng.shuffle(order)
                    out.append(sessions.Req(codec, k, r, rng.choice([1, 4, 7, 16, 17]), p1, 0, api, rng.below(4), 1, 2, order if api == 0 else S,
                                            pseed=rng.below(10 ** 9)))
    elif codec == sessions.LDPC:
        for (k, r, n1) in [(2, 3, 3), (3, 4, 3), (4, 4, 4), (5, 4, 3), (4, 6, 3)]:
            n = k + r
            seed = rng.rng(1, 2 ** 31 - 2)
            for mask in range(1 << n):
                S = [e for e in range(n) if mask >> e & 1]
                api = rng.below(2)
                order = list(S)
                rng.shuffle(order)
                out.append(sessions.Req(codec, k, r, 4, n1, seed, api, rng.below(4), 1, 2, order if api == 0 else S, pseed=rng.below(10 ** 9)))
    else:
        for (k, r) in sessions.p2d_shapes():
            n = k + r
            if n > 9:
                continue
            for mask in range(1 << n):
                S = [e for e in range(n) if mask >> e & 1]
                api = rng.below(2)
                order = list(S)
                rng.shuffle(order)
                out.append(sessions.Req(codec, k, r, 4, 0, 0, api, rng.below(4), 1, 2, order if api == 0 else S, pseed=rng.below(10 ** 9)))
    if len(out) > limit:
        out = rng.sample(out, limit)
    return out


def state_digests_agree(c, a, digs, line):
    """internal state of the C decoder after every submission call (equation counters, partial sums, remaining entries, ready-counters,
    per-repair equation counts) against the model's state, through a digest both sides compute over the same canonical text"""
    cd = [d for d in a.dig if d is not None]
    if not cd or not digs:
        return True
    c.cov["state_digests_compared"] = c.cov.get("state_digests_compared", 0) + min(len(cd), len(digs))
    for n_, (x, y) in enumerate(zip(cd, digs)):
        if y == "-":
            continue
        if x != y:
            c.proof_failed.append({"correspondence": "dec/internal-state", "request": line[:600], "after_call": n_, "c_digest": x, "model_digest": y,
                                   "note": "the decoder's internal state (per equation: unknown count, remaining degree, partial sum, entries; ready-counters; "
                                           "per-repair equation counts) differs from the model's although the visible masks agree"})
            return False
    return True


def run_sessions(c, codecs, pids, n_random, n_exh, extra_reqs=(), big=False):
    """pids: property ids whose oracle failures this check reports (others are the business of their own check)"""
    reqs = list(extra_reqs)
    reqs += sessions.gen_requests(c.rng, n_random, codecs=codecs, big=big)
    for cd in codecs:
        reqs += exhaustive_small(cd, c.rng, n_exh)
    lines = [q.line() for q in reqs]
    ans, crashes = ldpc.run_dec(c.snap, lines)
    for kx, se in crashes[:6]:
        c.violation("session crashed (%s): %s" % (reqs[kx].desc(), ans[kx][:160]), "session-crash",
                    {"stream": "dec", "request": lines[kx], "stderr": se})
    rs_req, rs_idx, it_req, it_idx, ml_req, ml_idx, ev_req, ev_idx = [], [], [], [], [], [], [], []
    hp_req, hp_idx = [], []
    prem_seen = set()
    nontrivial = set()
    for i, (q, al) in enumerate(zip(reqs, ans)):
        a = ldpc.Ans(al)
        if a.crash:
            continue
        fails = sessions.oracles(q, a)
        for pid, cls, msg in fails:
            if pid in pids:
                c.violation("%s  [%s]" % (msg, q.desc()), cls, {"stream": "dec", "request": lines[i], "c_answer": al[:1500], "property": pid})
        if q.esis:
            nontrivial.add(lines[i])
        c.dist("codec%d" % q.codec); c.dist("api%d" % q.api); c.dist("cb%d" % q.cb); c.dist("finish%d" % q.finish)
        c.dist("complete" if (a.F and a.F[1]) or (a.steps and a.steps[-1][1]) else "incomplete")
        if q.api >= 3:
            pass      # two cumulative tables: decided by the oracles alone (the model streams take one table)
        elif q.codec in (sessions.LDPC, sessions.P2D) and q.cb != 0 and a.H is not None and (q.finish == 0 or a.PM is not None) and q.k + q.r <= 400 and not (fails or a.P != 0 or a.Q != 0):
            # callback log (order included) vs the logged decoder models
            ev_req.append("Z %d %d %d %s %s %s %d %s %s" % (q.k, q.r, q.L, "1" if a.LN == "1" else "0", a.Hs, a.Ys, q.finish, a.PM or "-",
                                                            " ".join(map(str, q.esis if q.api == 0 else sorted(set(q.esis))))))
            ev_idx.append(i)
        if (q.api < 3 and q.codec in (sessions.LDPC, sessions.P2D) and a.H is not None and a.HL is not None and (q.finish == 0 or a.PM is not None) and q.k + q.r <= 400
                and a.P == 0 and a.Q == 0 and not any(f[0] in ("C01", "C03", "C04", "C10", "C16") for f in fails)):
            # ownership ledger (LdpcHeap.v): library-owned blocks after set-up, after every call, after finish, after release
            nent = sum(len(row) for row in a.H)
            hp_req.append("X %d %d %d %s %s %d %d %d %s %s" % (q.k, q.r, (nent + 1023) // 1024, "1" if a.LN == "1" else "0", a.Hs, q.cb, q.api, q.finish, a.PM or "-",
                                                               " ".join(map(str, q.esis if q.api == 0 else sorted(set(q.esis))))))
            hp_idx.append(i)
        if (q.api < 3 and q.codec in (sessions.RS28, sessions.RS2M) and a.HL is not None and a.P == 0 and a.Q == 0
                and not any(f[0] in ("C01", "C02", "C10") for f in fails)):
            hp_req.append("E %d %d %d %d %d %d %d %s" % (1 if q.codec == sessions.RS28 else 0, q.k, q.k + q.r, q.cb, q.api, 1 if q.role == 4 else 0, q.finish,
                                                         " ".join(map(str, q.esis))))
            hp_idx.append(i)
        if fails or a.P != 0 or a.Q != 0 or q.api >= 3:
            continue
        if q.codec in (sessions.RS28, sessions.RS2M):
            rs_req.append("R %d %d %d %d %d %s" % (q.k, q.k + q.r, 1 if q.cb else 0, q.api, q.finish, " ".join(map(str, q.esis))))
            rs_idx.append(i)
        elif q.codec == sessions.LDPC and q.api == 0 and q.finish == 0 and q.cb == 0 and a.H is not None:
            it_req.append("I %d %d %d %s %s %s %s" % (q.k, q.r, q.L, "1" if a.LN == "1" else "0", a.Hs, a.Ys, " ".join(map(str, q.esis))))
            it_idx.append(i)
        elif q.codec in (sessions.LDPC, sessions.P2D) and q.finish == 1 and a.H is not None and a.PM is not None and q.k + q.r <= 400:
            # streaming part + of_finish_decoding on the IT/ML models (values only: callbacks do not change them)
            ml_req.append("J %d %d %d %s %s %s %d %s %s" % (q.k, q.r, q.L, "1" if a.LN == "1" else "0", a.Hs, a.Ys, q.api, a.PM or "-",
                                                            " ".join(map(str, q.esis if q.api == 0 else sorted(set(q.esis))))))
            ml_idx.append(i)
            bad = ldpc.matrix_premises(a.H, q.r, q.k + q.r)
            if bad and (q.codec, q.k, q.r, q.p1, q.p2) not in prem_seen:
                c.proof_failed.append({"premise": "hypothesis of the IT/ML theorems fails on the matrix of this session: " + bad, "request": lines[i][:300]})
            prem_seen.add((q.codec, q.k, q.r, q.p1, q.p2))
    # ---- extracted models
    try:
        mexe = vlib.ocaml_model()
        if rs_req:
            rc, mout, _ = vlib.sh([mexe], input="\n".join(rs_req) + "\n", timeout=1800)
            ml = mout.splitlines()
            for j, i in enumerate(rs_idx):
                a = ldpc.Ans(ans[i])
                want = ["S%d%d:%s" % (s[0], s[1], s[2]) for s in a.steps]
                if a.F:
                    want.append("F%d%d:%s" % (a.F[0], a.F[1], a.F[2]))
                want.append("E" + "".join("D" if ch in "CL" else ch for ch in (a.E or "")))
                want.append("CB" + ",".join(x[1:].split(":")[0] for x in a.CB if x.startswith("s")))
                mt = ml[j].split() if j < len(ml) else []
                digs = next((x[1:].split(".") for x in mt if x.startswith("D")), [])
                if " ".join(x for x in mt if not x.startswith("D")) != " ".join(want):
                    c.proof_failed.append({"correspondence": "dec/rs-api", "request": lines[i][:400], "c": " ".join(want)[:600],
                                           "model": (ml[j] if j < len(ml) else "")[:600]})
                    break
                cdig = [d for d in a.dig if d is not None] + ([a.Fdig] if a.Fdig else [])
                if cdig and digs:
                    c.cov["state_digests_compared"] = c.cov.get("state_digests_compared", 0) + min(len(cdig), len(digs))
                    if cdig != digs:
                        c.proof_failed.append({"correspondence": "dec/rs-internal-state", "request": lines[i][:400], "c": ".".join(cdig)[:800], "model": ".".join(digs)[:800],
                                               "note": "counters (available, available sources), completion flag or availability table of the RS session differ from the API model's"})
                        break
        if it_req:
            rc, mout, _ = vlib.sh([mexe], input="\n".join(it_req) + "\n", timeout=1800)
            ml = mout.splitlines()
            for j, i in enumerate(it_idx):
                a = ldpc.Ans(ans[i])
                want = " ".join("S%d:%s:%s" % (s[1], s[2], s[3]) for s in a.steps)
                mt = ml[j].split() if j < len(ml) else []
                got = " ".join(x for x in mt if x[0] not in "VD")
                vals = next((x[1:] for x in mt if x.startswith("V")), "")
                digs = next((x[1:].split(".") for x in mt if x.startswith("D")), [])
                if got != want:
                    c.proof_failed.append({"correspondence": "dec/it", "request": lines[i][:400], "c": want[:600], "model": got[:600]})
                    break
                if not state_digests_agree(c, a, digs, lines[i]):
                    break
                # decoded values of the model = encoded source symbols (C01 on the model side)
                if vals:
                    mv = vals.split(".")
                    for s, v in enumerate(mv):
                        if v != "-" and s < len(a.Y) and v != a.Y[s]:
                            c.proof_failed.append({"correspondence": "dec/it-values", "request": lines[i][:400], "source": s, "model": v, "encoded": a.Y[s]})
                            break
        if ev_req:
            rc, mout, _ = vlib.sh([mexe], input="\n".join(ev_req) + "\n", timeout=3000)
            ml = mout.splitlines()
            for j, i in enumerate(ev_idx):
                a = ldpc.Ans(ans[i])
                want = ",".join(x.split(":")[0] for x in a.CB)
                got = ml[j][2:].strip() if j < len(ml) else "?"
                if got != want:
                    c.proof_failed.append({"correspondence": "dec/callback-log", "request": lines[i][:400], "c": want[:800], "model": got[:800], "model_request": ev_req[j][:3000]})
                    break
        if hp_req:
            rc, mout, _ = vlib.sh([mexe], input="\n".join(hp_req) + "\n", timeout=3000)
            ml = mout.splitlines()
            c.cov["heap_ledgers_compared"] = c.cov.get("heap_ledgers_compared", 0) + len(hp_idx)
            for j, i in enumerate(hp_idx):
                a = ldpc.Ans(ans[i])
                setup, calls, fin_, left = a.HL
                nlib = sum(1 for ch in (a.E or "") if ch in "Ll")      # source entries holding a library-allocated block (the application's to free)
                want = "R HL%d;%s;%s;%d=%d" % (setup, ",".join(map(str, calls)), "-" if fin_ is None else str(fin_), left, nlib)
                if reqs[i].codec in (sessions.LDPC, sessions.P2D):
                    # who owns each source entry: the application's buffer (received, or returned by its callback) or a library block
                    want += ";" + "".join("A" if ch in "RCrc" else "L" if ch in "Ll" else ch for ch in (a.E or ""))
                got = ml[j].strip() if j < len(ml) else "?"
                if got != want:
                    c.proof_failed.append({"correspondence": "dec/heap-ledger", "request": lines[i][:400], "c": want[:800], "model": got[:800], "model_request": hp_req[j][:3000],
                                           "note": "library-owned heap blocks of the decoder session (after set-up; after every submission call; after of_finish_decoding; "
                                                   "left after of_release_codec_instance = decoded source symbols the application owns) differ from the ownership ledger (LdpcHeap.v / RSHeap.v)"})
                    break
        if ml_req:
            rc, mout, _ = vlib.sh([mexe], input="\n".join(ml_req) + "\n", timeout=3000)
            ml = mout.splitlines()
            for j, i in enumerate(ml_idx):
                a = ldpc.Ans(ans[i])
                q = reqs[i]
                want = ["S%d:%s:%s" % (s[1], s[2], s[3]) for s in a.steps]
                want.append("F%d%d:%s:%s" % (1 if a.F[0] == 0 else 0, a.F[1], a.F[2], a.F[3]))
                got = ml[j].split() if j < len(ml) else []
                gv = [x for x in got if x.startswith("V")]
                digs = next((x[1:].split(".") for x in got if x.startswith("D")), [])
                got = [x for x in got if x[0] not in "VD"]
                if got != want:
                    c.proof_failed.append({"correspondence": "dec/ml-finish", "request": lines[i][:400], "c": " ".join(want)[:800], "model": " ".join(got)[:800],
                                           "model_request": ml_req[j][:3000]})
                    break
                if not state_digests_agree(c, a, digs, lines[i]):
                    break
                if gv:
                    for s, v in enumerate(gv[0][1:].split(".")):
                        if v != "-" and s < len(a.Y) and v != a.Y[s]:
                            c.proof_failed.append({"correspondence": "dec/ml-values", "request": lines[i][:400], "source": s, "model": v, "encoded": a.Y[s]})
                            break
    except vlib.BuildError as e:
        c.proof_failed.append({"model_build": str(e)[-1500:]})
    c.cov["evaluations"] = c.cov.get("evaluations", 0) + len(reqs)
    c.cov["distinct_nontrivial"] = c.cov.get("distinct_nontrivial", 0) + len(nontrivial)
    c.cov["traces_validated_against_impl"] = c.cov.get("traces_validated_against_impl", 0) + len(rs_idx) + len(it_idx) + len(ml_idx) + len(ev_idx)
    if not c.cov["samples"]:
        c.cov["samples"] = [lines[0][:200], lines[len(lines) // 2][:200], lines[-1][:200]]
    c.cov["rule"] = ("one request = one full life cycle (encoder session builds all repair symbols; decoder session gets a list of ESIs through of_decode_with_new_symbol "
                     "(order, duplicates) or of_set_available_symbols, optional of_finish_decoding, callback mode none/buffer/NULL/alternating, decoder role DECODER or "
                     "ENCODER_AND_DECODER, release, application frees what it owns); random parameters with loss counts centred on the decodability threshold + every "
                     "received subset of small codes; non-trivial = at least one symbol submitted; distinct = distinct request lines")
    return reqs, ans
