#!/usr/bin/env python3
"""Writes MANIFEST.json from the table below (kept in one place so it always validates)."""
import json, os
V = os.path.dirname(os.path.dirname(os.path.abspath(__file__)))
props = [json.loads(l) for l in open(os.path.join(V, "properties.jsonl"))]
CLAIMED = {
 "C14": dict(
   text="Machine-checked proof (Coq, finite sweeps closed by vm_compute and lifted to forall a b < 2^m) that every entry of every GF table equals arithmetic in GF(2)[x]/(x^4+x+1) resp. GF(2)[x]/(x^8+x^4+x^3+x^2+1). The precomputed tables are re-read from /repo's headers by a translator on every run, so the theorem is about the source text as it is now; the run-time generated tables of the GF(2^8) codec are covered by a Gallina model of the generator proved against the same spec and tied to the compiled C by an exhaustive table comparison evaluated inside Coq.",
   note="Trusted: Coq kernel + vm_compute; translator (gcc parses the headers, cross-checked by a textual parse); harness/dump_tables.c; GF2Poly.v as the definition of the field. No axioms (Print Assumptions: closed under the global context).",
   technique="Coq proof by exhaustive vm_compute sweep over translator-regenerated tables + model/implementation table correspondence",
   ref="3/C14"),
}
checks = []
for p in props:
    i = p["id"]
    if i not in CLAIMED:
        continue
    c = CLAIMED[i]
    checks.append({
        "property_id": i,
        "quick_cmd": "./check %s --tier quick" % i,
        "thorough_cmd": "./check %s --tier thorough" % i,
        "evidence_file": "/verif/evidence/%s.json" % i,
        "replay_cmd_template": "./check %s --replay {path}" % i,
        "engine": "coq-proof+correspondence",
        "level_claimed": {"category": "proof", "text": c["text"], "design_ref": "DESIGN.md section " + c["ref"]},
        "level_note": c["note"],
        "technique": c["technique"],
    })
na = [{"property_id": p["id"], "reason": "not yet claimed: model, theorem and correspondence for this property are still being built (see DESIGN.md section 3); nothing is asserted about it yet"}
      for p in props if p["id"] not in CLAIMED]
m = {
 "version": 1,
 "setup_cmd": "./setup.sh",
 "hooks": {"guard": "OF_VERIF_HOOKS", "enable": "checks compile /repo/src themselves with -DOF_VERIF_HOOKS (no hook is currently needed: static functions are reached by translation-unit inclusion, allocations by -Wl,--wrap)",
           "baseline_off_cmd": "cmake -S /repo -B /repo/_build -G Ninja >/dev/null && cmake --build /repo/_build >/dev/null && ctest --test-dir /repo/_build -j8 --timeout 900",
           "source_commits": [], "add_only": True},
 "engines": [{"name": "coq-proof+correspondence", "path": "/verif/check",
              "serves_properties": [c["property_id"] for c in checks],
              "kind_free_text": "Coq 8.16 theorems about Gallina models (coq/), translator tools/gen_*.py regenerating tables/constants from /repo each run, extracted-OCaml-vs-C differential correspondence (harness/, ocaml/)"}],
 "checks": checks,
 "not_applicable": na,
 "notes": "Genuine defects of the unchanged tree are repaired by 'fix:' commits in /repo or listed in known_findings.json; see DESIGN.md sections 4 and 10.",
}
json.dump(m, open(os.path.join(V, "MANIFEST.json"), "w"), indent=1)
print("claimed:", [c["property_id"] for c in checks])
