#!/usr/bin/env python3
"""Writes MANIFEST.json from the table below (kept in one place so it always validates)."""
import json, os
V = os.path.dirname(os.path.dirname(os.path.abspath(__file__)))
props = [json.loads(l) for l in open(os.path.join(V, "properties.jsonl"))]
CLAIMED = {
 "C14": dict(
   text="Machine-checked proof (Coq, finite sweeps closed by vm_compute and lifted to forall a b < 2^m) that every entry of every GF table equals arithmetic in GF(2)[x]/(x^4+x+1) resp. GF(2)[x]/(x^8+x^4+x^3+x^2+1). The precomputed tables are re-read from /repo's headers by a translator on every run, so the theorem is about the source text as it is now; the run-time generated tables of the GF(2^8) codec are covered by a Gallina model of the generator proved against the same spec and tied to the compiled C by an exhaustive table comparison evaluated inside Coq.",
   note="Trusted: Coq kernel + vm_compute; translator (gcc parses the headers, cross-checked by a textual parse); harness/dump_tables.c; GF2Poly.v as the definition of the field. No axioms (Print Assumptions: closed under the global context).",
   technique="Coq proof by exhaustive vm_compute sweep over translator-regenerated tables + model/implementation table correspondence",
   ref="3/C14"),
 "C01": dict(
   text="Proof for the LDPC streaming path + C-side decision for the rest. Proved in Coq for the streaming LDPC decoder model (any matrix, size, history, symbol type with an associative/commutative/nilpotent xor): every symbol the decoder holds after any history of codeword symbols equals the codeword's symbol at that column (value invariant of the partial sums through the recursive decoder), the completion query is true iff all k sources are available, and every available symbol lies in the peeling closure of the received set. Not yet proved: the ML finish path, the Reed-Solomon algebra. For those, every generated life cycle (all three codecs, both APIs, duplicates, callbacks, with/without finish; every received subset of small codes) compares each available source symbol byte by byte with the encoded source on the compiled C, and the extracted IT model is run on the same histories and its decoded values are compared with the encoded symbols.",
   note="Trusted: Coq kernel; ITModel.v/RSApi.v mirrors; sessions driver + python oracle. The property's first sentence is a theorem for the LDPC streaming decoder only (ldpc_available_symbols_equal_codeword).",
   technique="Coq proof by invariant over the recursive decoder (LDPC streaming: values, availability, completion) + extracted-model-vs-C correspondence + byte-level oracle on the C",
   ref="3/C01", cat="proof"),
 "C02": dict(
   text="Machine-checked proof (Coq) for the model of the API layer shared by both RS codecs: after ANY history of of_decode_with_new_symbol calls (any order, duplicates, any 1<=k<=n) decoding is complete iff at least k distinct ESIs were submitted; of_finish_decoding returns OK iff complete afterwards and FAILURE iff fewer than k. MDS half proved for the canonical code (RSSpec/GFField/RSCanon: GF(2)[x]/(p) is a field, a non-zero polynomial of degree < k has fewer than k roots, hence for every k <= n <= 2^m ANY k distinct codeword positions determine the k source elements, m = 4 and 8); the C encoders are tied to that code by C06's model correspondence. That the C decoders' Gauss-Jordan inversion computes this unique preimage remains a named hypothesis of the API theorems (core_ok), exercised on the compiled C by every received subset of small codes, both APIs, both codecs, m=4 and 8, and sampled k up to 200; every RS session is also replayed on the extracted API model and compared (statuses, completion, table, callback ESIs).",
   note="Trusted: Coq kernel; RSApi.v mirror; RSCanon.v as the definition of the code; hypothesis core_ok (the in-place Gauss-Jordan inversion) not discharged in Coq; extraction, drivers, oracle.",
   technique="Coq proofs: invariant over call histories (API layer), MDS property of the canonical code over GF(2^m) (polynomial root bound); extracted-model-vs-C correspondence; decoder algebra by exhaustive small-code decoding on the C",
   ref="3/C02", cat="proof"),
 "C03": dict(
   text="No Coq model of the ML finish path exists yet, so this property is currently decided on the compiled C only: after of_finish_decoding, completion is compared (both directions) with an independent GF(2) elimination over the parity-check matrix dumped from the session and the received set; every received subset of five small codes, threshold-centred random sets (exactly k..k+3 symbols), both APIs, several orders of the same set.",
   note="Exploration level: differential testing against an independent rank oracle; no theorem. Trusted: drv_dec.c, tools/ldpc.py gf2_determined.",
   technique="(no proof yet) independent GF(2) rank oracle on generated and exhaustive received sets",
   ref="3/C03", cat="exploration"),
 "C04": dict(
   text="Machine-checked proof (Coq, 1,000+ lines, no axioms) that the Gallina model of the iterative decoder (steps 0-3 of of_linear_binary_code_decode_with_new_symbol, degree-1 work list, recursive re-injection, early exits) makes available exactly the source part of the inductively defined peeling closure of the received set, for every well-formed parity-check matrix, every size, every symbol type and every finite history (any order, repetitions, any prefix); never runs out of fuel n+1; order and duplicates provably do not matter. Tied to the C by running the extracted model and the compiled library on the same histories and comparing completion flag, source mask and repair mask after every call, with the matrix read from the C session, plus an independent python closure oracle on the C output.",
   note="Trusted: Coq kernel; ITModel.v as a hand-written mirror of of_it_decoding.c (validated by the per-prefix correspondence); well-formedness of the matrices the C builds is checked on every dumped matrix (proved for the construction under C05/C15); extraction + drivers. No axioms.",
   technique="Coq proof by invariant/induction over a hand-written model + extracted-model-vs-C correspondence after every prefix",
   ref="3/C04"),
 "C05": dict(
   text="Machine-checked proof (Coq) that the Gallina model of the matrix construction (Pchk.v: list initialisation, 'valid choice remains' scan, PRNG-driven retry loops with fuel, uneven fallback, extra-entry rule, staircase; built on the sparse-matrix model of C17 and on the PRNG function generated from of_rand.c, proved Park-Miller in C19) does not depend on the PRNG state found at entry for any seed in 1..2^31-2, hence not on role, process or earlier sessions; with a refused seed it provably does (Example). The model is compared entry by entry (plus extra-entries flag and PRNG state left behind) with the matrix of the compiled C for a parameter grid (k=1,2, N1=3 and N1=r, rate extremes, boundary seeds) x {encoder, decoder} x {fresh, after 1-2 other sessions}; all C matrices of one parameter set must coincide.",
   note="Trusted: Coq kernel; Pchk.v as hand-written mirror of the C construction and, by transcription from memory, of RFC 5170 5.2-5.3 (RFC text unavailable offline); c2gallina for the PRNG; Flocq + stdlib real-number axioms (through the PRNG theorems); extraction, drivers.",
   technique="Coq proof over a hand-written model using the translator-generated PRNG + extracted-model-vs-C matrix correspondence",
   ref="3/C05"),
 "C06": dict(
   text="Machine-checked proof (Coq, no axioms) for the model of the LDPC-Staircase (and, same text, 2D parity) repair-symbol builder: for ANY staircase-shaped matrix, after building the repair symbols in increasing ESI order every parity equation sums to zero, source symbols are untouched, and the repair values are the unique ones with that property (any size, any symbol group). Reed-Solomon half: the symbol-level model RSEnc.v multiplies by the canonical generator G of RSCanon.v; proved for every k <= 2^m over x^4+x+1 / x^8+x^4+x^3+x^2+1: G is systematic, (row j of G) x V_k = (1, x_j, ..., x_j^(k-1)) on the points 0,1,a,a^2,... and G's rows are the only vectors with that property (G = V_n V_k^-1). The compiled encoders of both codecs (hence their byte compatibility) are compared with the extracted model on every request, and an independent python Gauss-Jordan construction cross-checks the model: all (k,n) of GF(2^4) in thorough, boundary and random shapes of GF(2^8) on both codecs; plus NULL output slots, dirty caller buffers, repeated builds, decreasing ESI order, unchanged sources.",
   note="Trusted: Coq kernel + vm_compute sweeps (field axioms); LdpcEnc.v mirror (staircase shape checked on every dumped matrix); RSEnc.v/RSCanon.v spec; extraction; drv_enc.c. The C's own generator construction (invert_vdm, matmul) is not modelled, its output is compared.",
   technique="Coq proofs (LDPC encoder model; RS canonical generator: field axioms by sweep, Lagrange/Vandermonde uniqueness) + extracted-model-vs-C correspondence on encoder output",
   ref="3/C06"),
 "C07": dict(
   text="Two layers. (1) The part of the property that is logic is proved in Coq for the models tied to the C (Properties_C07.v): the symbol kernels change exactly the first `size` bytes and do not depend on operand bytes beyond `size`; the LDPC/2D encoder leaves sources untouched; the streaming decoder, the ML finish and the Reed-Solomon API layer never overwrite a table entry they hold (received or decoded) - for every history, with no hypothesis on the data - and the entry written for a fresh submission is the submitted buffer itself. (2) Pointer-level behaviour of the compiled C (out-of-bounds access, use after free) is run-time behaviour that no Gallina model here can exhibit (no C semantics is installed): it is decided by exploration - every generated life cycle of the three codecs (limits included: k up to 200/300, symbol lengths covering every residue of the unrolled kernels, both APIs, callbacks, both decoder roles, early release) runs under ASan/UBSan with each application buffer in its own exact-size heap block, and every buffer handed to the library is compared before/after. The level is labelled exploration because layer (2) is what decides memory safety.",
   note="Trusted: Coq kernel for layer (1), with the hand-written models (ITModel, MLModel, RSApi, Kernels) tied to the C by the session/kernel correspondences; ASan/UBSan runtime (alignment and shift-base checks disabled, see tools/vlib.py), drv_dec.c for layer (2).",
   technique="Coq theorems for the table/byte-level contract of the models + sanitizer-instrumented exploration of protocol-conforming histories for pointer-level safety",
   ref="3/C07", cat="exploration"),
 "C08": dict(
   text="Two layers. (1) Proved in Coq for the models tied to the C (Properties_C08.v): the library's own sub-allocator (the 1024-entry block pool of the sparse matrix) conserves entries in every reachable state (blocks*1024 = free + live, so freeing the blocks releases everything); a table entry is written at most once, so a buffer allocated for a decoded symbol is never replaced (orphaned) before release; the Reed-Solomon finish obtains exactly one buffer per source entry still empty and none for a received one. (2) Whether the compiled library has freed every malloc'ed block exactly once is a fact about the run-time heap that no model here can exhibit: it is decided by exploration - malloc/calloc/realloc/free are wrapped at link time in the session driver; after release and after the application freed exactly what the API says it owns, the live-block count must return to its pre-session value, for generated life cycles of all three codecs released at arbitrary points (any number of calls, with/without finish, both roles, all callback modes); double frees are ASan errors. Labelled exploration because layer (2) decides the property.",
   note="Trusted: Coq kernel for layer (1); link-time allocation counters + ASan, drv_dec.c for layer (2).",
   technique="Coq theorems for the bookkeeping that is logic (entry pool conservation, write-once tables, one buffer per missing source) + link-time allocation accounting over generated life cycles",
   ref="3/C08", cat="exploration"),
 "C09": dict(
   text="Machine-checked proof (Coq, ZifyBool/lia) that the decision functions mirroring the three set_fec_parameters implementations accept exactly the advertised limits, for ALL 32-bit k, r (incl. the UINT32 wrap of k+r), L, N1, seed: LDPC-Staircase and RS GF(2^8) fully; RS GF(2^m) is refuted by a witness (n above the field size is accepted: known finding, the repository's own test relies on it) and proved outside that class. Limits are re-read from /repo's headers on every run. The decision functions are compared with the compiled C (encoder and decoder sessions) on an exhaustive boundary grid (~18,000 points); accepted points are followed by a full encode/lose/decode cycle and by 13 corrupted calls (NULL session, ESI out of range, wrong role, NULL symbol) that must return an error status and leave both sessions usable.",
   note="Trusted: Coq kernel; Params.v hand-written mirror of the parameter checks (tied by the exhaustive grid); gen_consts translator; drivers. No axioms. Known finding rs2m-n-above-field listed in known_findings.json.",
   technique="Coq proof over decision functions with translator-regenerated limits + exhaustive grid correspondence + follow-up life cycles",
   ref="3/C09"),
 "C10": dict(
   text="Machine-checked proofs (Coq): RS API model: finish returns OK iff complete afterwards / FAILURE iff not, complete iff k distinct symbols; LDPC streaming model: the completion query is true exactly when all k sources are available and availability never reverts along any history. The LDPC finish status and pointer identity are decided by the C-side oracle (every session) and, for RS, by the API-model correspondence.",
   note="Trusted: Coq kernel; RSApi.v/ITModel.v mirrors; hypothesis core_ok in the RS theorems; drivers and oracle. No ML model: LDPC finish status is not a theorem.",
   technique="Coq proof by invariant (RS API model, IT model) + extracted-model-vs-C correspondence + status/flag/pointer oracle",
   ref="3/C10", cat="proof"),
 "C11": dict(
   text="Machine-checked proof (Coq) for the RS API model: at decoding time the callback is invoked exactly once per source ESI still missing, in increasing order, never for a received symbol, never when none is registered. LDPC producers (IT step 3, ML simplification, ML Gaussian stage) are decided by the C-side oracle: callback multiset = decoded-not-received sources, size = L, buffer identity (callback buffer vs library buffer) for callback modes buffer/NULL/alternating.",
   note="Trusted: Coq kernel; RSApi.v mirror; drivers and oracle. LDPC part has no theorem.",
   technique="Coq proof over the RS API model + extracted-model-vs-C correspondence + callback oracle",
   ref="3/C11", cat="proof"),
 "C12": dict(
   text="Machine-checked proof (Coq): generic interleaving theorem (for any machine whose steps keep the shared global state out of the session's next state and output, a session's outputs in ANY interleaving equal its outputs alone from ANY global state), instantiated for the one API step that reads shared state, LDPC-Staircase configuration (refused seeds rejected up front, accepted seeds overwrite of_seed before its first read: C05/C09/C19). For all other steps locality is validated on the compiled C: groups of 2-4 sessions of mixed codecs, life cycles cut into single API calls and interleaved by random/alternating/delayed schedules in one process, against each session alone in a fresh process; every observable token compared.",
   note="Trusted: Coq kernel (+ stdlib real axioms through the PRNG theorems); the locality hypothesis is a theorem only for LDPC configuration; drv_multi.c / drv_dec.c.",
   technique="Coq proof (generic interleaving theorem + instance) + interleaved-vs-solo C runs",
   ref="3/C12"),
 "C13": dict(
   text="Machine-checked proof (Coq) that the Gallina models of the seven symbol kernels (XOR one->one, many->one with the 8/4/2/1 operand grouping, one->many; GF(2^8) multiply-accumulate of both codecs, GF(2^4) bytewise and packed two-per-byte) change exactly bytes 0..size-1 of the destination(s) into the bytewise definition, read no operand byte at or beyond size, for every size and operand count (no bound), with the table rows proved to be field multiplication in C14. The models keep the C's loop structure and offset arithmetic; they are tied to the compiled C by a differential run (extracted model vs C under ASan, exact-size heap blocks, all 8 alignments, every size 0..70+, operand counts 0..20, every field constant).",
   note="Trusted: Coq kernel + vm_compute; Kernels.v's modelling of a word access as an access to the bytes it covers (LP64 little-endian non-SSE path); alignment exists only on the C side of the correspondence; extraction + drivers. No axioms.",
   technique="Coq proof over hand-written loop-faithful models + extracted-model-vs-C correspondence under ASan",
   ref="3/C13"),
 "C15": dict(
   text="Machine-checked proof (Coq, no axioms) that for ANY parity-check matrix with duplicate-free in-range rows whose source columns all have even weight and whose repair part is the staircase, and any codeword over any abelian group of exponent 2 (symbols of any length), the last repair symbol is null. The hypotheses are evaluated on the matrix read from the C for every generated session whose claim is true (even N1 in {4,6,8}, rates on both sides of the extra-entry threshold); on the C the built last repair symbol must be all zero for random payloads and encoder/decoder must agree on the claim.",
   note="Trusted: Coq kernel; that 'no extra entry' implies exactly N1 entries per source column for the C construction is checked per dumped matrix, not proved; drv_dec.c.",
   technique="Coq proof (universal in matrix and symbol group) + hypothesis evaluation on C-built matrices + zero-symbol oracle",
   ref="3/C15"),
 "C16": dict(
   text="Machine-checked proofs (Coq, no axioms) for ALL d, l >= 1 about the model of the 2D matrix construction (Pchk2D.v, on the proved sparse-matrix model, the C's swapped-argument call included) decoded by the generic streaming-decoder model and encoded by the generic builder: each check has its own repair symbol and no other, every source symbol is in exactly one row check and one column check (closed form of every row), the parameter search accepts only product shapes and builds exactly that matrix; the encoder satisfies every check and leaves sources untouched; the streaming decoder never holds a wrong symbol, makes available exactly the peeling closure of the received set (any order, duplicates), and recovers any single loss whatever the arrival order. The model's acceptance and matrix are compared with the compiled C for every (k, n-k) with k <= 16, n <= 24 (and a margin beyond). Not theorems yet: of_finish_decoding (ML) recovering exactly the uniquely determined patterns and leak-free release: decided on the compiled C (every received subset of the small shapes, random subsets of all, both APIs, independent GF(2) oracle, allocation accounting) and by the IT/ML model correspondence on every finish session.",
   note="Trusted: Coq kernel; Pchk2D.v mirror of of_create_2D_pchk_matrix/of_fill_2D_pchk_matrix (integer arithmetic instead of the C's floats, tied by the exhaustive pair comparison); the codec-5 API glue (cast to the generic control block) is not modelled; extraction; drivers; oracles.",
   technique="Coq proofs over a hand-written matrix model instantiating the generic IT decoder / encoder theorems + exhaustive model-vs-C matrix correspondence over the parameter domain + GF(2) oracle on the C for ML completeness",
   ref="3/C16", cat="proof"),
 "C17": dict(
   text="Machine-checked proof (Coq, no axioms) that the Gallina model of the sparse matrix (two consistent families of strictly increasing lists + entry-pool counters; find/insert with the C's last-entry shortcuts and front walks) refines the abstract set of (row, column) pairs: find = membership, insert adds exactly one pair and is idempotent, delete removes exactly one, clear empties, bulk insertion (copy, copyrows, copycols, copy_filled_matrix, dense->sparse) and copy yield the stated sets, every traversal is strictly increasing and enumerates exactly its row/column, and blocks*1024 = free + live entries in every reachable state (so free releases everything), for all dimensions and all operation sequences. Tied to the C by comparing result, all row and column traversals and the pool summary after every operation of generated sequences (extracted model vs C under ASan) plus an independent python set oracle.",
   note="Trusted: Coq kernel; Sparse.v models the linked lists by what their traversals enumerate, pointer surgery itself is only observed under ASan; BLOCK = 1024 is compared with of_mod2sparse_block on every run; extraction + drivers. No axioms.",
   technique="Coq refinement proof (model -> abstract set) by invariant preservation + extracted-model-vs-C correspondence after every operation",
   ref="3/C17"),
 "C18": dict(
   text="Machine-checked proofs (Coq, no axioms): (a) for the Gallina mirror of the row-oriented dense matrix (32-bit word packing) get-after-set/flip/clear/row-XOR are exactly the bit-matrix operations for all dimensions (column counts not multiples of 32 included), an all-zero-words row has no bit; (b) for the mirror of the symbol-level solver (pivot search, row swap, word-granular row XOR, NULL constant terms, back-substitution) whenever it returns, its result coincides with EVERY solution of the p x q system on all q unknowns and is a solution as soon as one exists; it gives up if and only if the matrix has a non-trivial GF(2) kernel vector (no full column rank), independently of the right-hand sides; all-zero rows with unspecified right-hand sides do not influence the result; all this for all p, q, matrices, right-hand sides and symbol groups; (c) copy, copy-rows (early stop included) and copy-columns are the bit-matrix copies within the bounds of the matrices given, a row is reported empty iff it has no bit, under invariants (well-formedness, zero padding bits, 32-bit words) preserved by every operation; (d) about the functions regenerated from of_hamming_weight.c on every run: the SWAR popcounts return the number of set bits for EVERY 32-/64-bit word, the byte table is the popcount of every byte, table-based and naive variants agree. Hand-modelled rather than translated: the word loop of of_hweight_array and the UINT8-pointer cast; these are decided by the correspondence (extracted models vs C under ASan, all words incl. padding after every op; solver statuses and solutions) and by independent python oracles (bit matrix, GF(2) rank + unique solution, popcount).",
   note="Trusted: Coq kernel; Dense.v/DenseSolve.v hand-written mirrors; extraction + drivers; oracles. Partial as stated.",
   technique="Coq proofs over hand-written mirrors (bit-level ops; solver soundness and completeness by row-operation invariants) + extracted-model-vs-C correspondence + rank oracle",
   ref="3/C18"),
 "C19": dict(
   text="Machine-checked proof (Coq + Flocq) about the Gallina function that tools/c2gallina.py generates from of_rand.c on every run: for every state in 1..2^31-2 the next state is 16807*s mod (2^31-1) (Carta's split = modular multiplication, never 0), seeding accepts exactly 1..2^31-2, the 10,000th state from 1 is 1043618065, the returned value is RFC 5170's binary64 expression, lies in 0..maxv-1 for every maxv <= 2^24 (also for products above 2^53) and equals the exact floor below 2^53. All 2^31-2 states and all maxv at once; the compiled C is tied in by a differential run against the extracted model plus an exact-integer oracle.",
   note="Trusted: Coq kernel + vm_compute; c2gallina translator and CSem.v (meaning of C's UINT64 and double operators); Flocq 4.1.0; stdlib axioms of the reals (sig_forall_dec, sig_not_dec, functional_extensionality_dep, classic) as printed by Print Assumptions; extraction (ExtrOcamlBasic) and the C/OCaml drivers for the correspondence.",
   technique="Coq/Flocq proof over a model regenerated from the C source by a translator, plus extracted-model-vs-C correspondence",
   ref="3/C19"),
 "C20": dict(
   text="Machine-checked proof (Coq + Flocq) about the Gallina function generated from blocking_struct.c on every run: the RFC 5052 quantities form a partition (exact layer, all B, L, E >= 1), and for ALL 32-bit B, L, E >= 1 the binary64 computation is defined (no double->UINT32 conversion overflows) and returns exactly N = ceil(ceil(L/E)/B), A_large = ceil(T/N), A_small = floor(T/N), I = T mod N (Sterbenz exactness of A - A_small, 2^-21 error bound on the product, closest-int selection). The compiled C is tied in by the correspondence: exhaustive for T, B <= 200 (1200 thorough), boundary grid to 2^32-1, directed random, against the extracted model and an exact-integer oracle.",
   note="Trusted: as C19, plus Blocking.v as the transcription of RFC 5052 section 9.1.",
   technique="Coq/Flocq proof over a translator-generated model + extracted-model-vs-C correspondence with exact-integer oracle",
   ref="3/C20"),
}
checks = []
for p in props:
    i = p["id"]
    if i not in CLAIMED:
        continue
    c = CLAIMED[i]
    checks.append({
        "property_id": i,
        "quick_cmd": "./check %s --tier quick" % i,
        "thorough_cmd": "./check %s --tier thorough" % i,
        "evidence_file": "/verif/evidence/%s.json" % i,
        "replay_cmd_template": "./check %s --replay {path}" % i,
        "engine": "coq-proof+correspondence",
        "level_claimed": {"category": c.get("cat", "proof"), "text": c["text"], "design_ref": "DESIGN.md section " + c["ref"]},
        "level_note": c["note"],
        "technique": c["technique"],
    })
na = [{"property_id": p["id"], "reason": "not yet claimed: model, theorem and correspondence for this property are still being built (see DESIGN.md section 3); nothing is asserted about it yet"}
      for p in props if p["id"] not in CLAIMED]
m = {
 "version": 1,
 "setup_cmd": "./setup.sh",
 "hooks": {"guard": "OF_VERIF_HOOKS", "enable": "checks compile /repo/src themselves with -DOF_VERIF_HOOKS (no hook is currently needed: static functions are reached by translation-unit inclusion, allocations by -Wl,--wrap)",
           "baseline_off_cmd": "cmake -S /repo -B /repo/_build -G Ninja >/dev/null && cmake --build /repo/_build >/dev/null && ctest --test-dir /repo/_build -j8 --timeout 900",
           "source_commits": [], "add_only": True},
 "engines": [{"name": "coq-proof+correspondence", "path": "/verif/check",
              "serves_properties": [c["property_id"] for c in checks],
              "kind_free_text": "Coq 8.16 theorems about Gallina models (coq/), translator tools/gen_*.py regenerating tables/constants from /repo each run, extracted-OCaml-vs-C differential correspondence (harness/, ocaml/)"}],
 "checks": checks,
 "not_applicable": na,
 "notes": "Genuine defects of the unchanged tree are repaired by 'fix:' commits in /repo or listed in known_findings.json; see DESIGN.md sections 4 and 10.",
}
json.dump(m, open(os.path.join(V, "MANIFEST.json"), "w"), indent=1)
print("claimed:", [c["property_id"] for c in checks])
